#!/usr/bin/env python3
"""Regenerate /verif/MANIFEST.json from tools/manifest_src.json (claimed checks) and properties.jsonl
(everything not claimed goes to not_applicable with its reason). Validates against the schema."""
import json, os, sys
V = os.path.dirname(os.path.dirname(os.path.abspath(__file__)))
src = json.load(open(os.path.join(V, "tools", "manifest_src.json")))
props = [json.loads(l) for l in open(os.path.join(V, "properties.jsonl"))]
checks = []
for p in props:
    c = src["checks"].get(p["id"])
    if not c:
        continue
    checks.append({
        "property_id": p["id"],
        "quick_cmd": f"/venv/bin/python run.py {p['id']} --tier quick",
        "thorough_cmd": f"/venv/bin/python run.py {p['id']} --tier thorough",
        "evidence_file": f"/verif/evidence/{p['id']}.json",
        "replay_cmd_template": f"/venv/bin/python run.py {p['id']} --replay {{path}}",
        "engine": "harness",
        "level_claimed": {"category": c["level"], "text": c["text"], "design_ref": c.get("design_ref", "DESIGN.md section 7")},
        "level_note": c["note"],
        "technique": c["technique"],
    })
na = [{"property_id": p["id"], "reason": src["not_applicable"].get(p["id"], "check not built yet in this phase; no claim is made")}
      for p in props if p["id"] not in src["checks"]]
m = {
    "version": 1,
    "setup_cmd": src["setup_cmd"],
    "hooks": src["hooks"],
    "engines": [{"name": "harness", "path": "/verif/run.py", "serves_properties": [c["property_id"] for c in checks],
                 "kind_free_text": "Hypothesis-driven generated-input search over an API model compiled to protobuf descriptors; "
                                   "real generator run in-process; emitted library exercised in a fresh interpreter against loopback "
                                   "gRPC/HTTP servers; reference-model / round-trip / metamorphic oracles; replay files"}],
    "checks": checks,
    "notes": src.get("notes", ""),
    "not_applicable": na,
}
json.dump(m, open(os.path.join(V, "MANIFEST.json"), "w"), indent=1)
try:
    import jsonschema
    jsonschema.validate(m, json.load(open("/root/.vp/MANIFEST.schema.json")))
    print("MANIFEST.json valid;", len(checks), "checks,", len(na), "not claimed")
except ImportError:
    print("MANIFEST.json written (jsonschema not importable here);", len(checks), "checks")
