#!/bin/bash
# dev aid: apply a seeded patch to /repo, run one property's quick check, undo the patch.
# usage: tools/try_patch.sh <patch.diff> <ID> [tier]
set -u
patch=$(realpath "$1"); id=$2; tier=${3:-quick}
cd /repo || exit 2
if ! git diff --quiet; then echo "repo dirty"; exit 2; fi
git apply "$patch" || { echo "patch does not apply"; exit 2; }
cp /verif/evidence/$id.json /tmp/evidence-$id.bak 2>/dev/null    # a run against a mutated tree must not leave its evidence behind
cd /verif && timeout 3000 /venv/bin/python run.py "$id" --tier "$tier" 2>&1 | tail -${TAILN:-6}
rc=${PIPESTATUS[0]}
git -C /repo checkout -- . 
cp /tmp/evidence-$id.bak /verif/evidence/$id.json 2>/dev/null
echo "exit=$rc"
