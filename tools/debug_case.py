#!/usr/bin/env python3
"""dev aid: materialise a replay case into DIR (kept) and run the exerciser there, printing result.json."""
import sys, os, json, subprocess
sys.path.insert(0, os.path.dirname(os.path.dirname(os.path.abspath(__file__))))
from harness import driver, common
d = json.load(open(sys.argv[1])); case = d["case"]; work = sys.argv[2]; pid = sys.argv[3] if len(sys.argv) > 3 else d.get("property")
os.makedirs(work, exist_ok=True)
res, req = driver.generate(case["api"], case["options"], work)
out = os.path.join(work, "out"); driver.materialise(res.response, out); driver.materialise_dep_pb2(req, case["api"], out)
r = driver.exercise(pid, work, out, req, case["api"], case["options"], case.get("inner") or {})
print(json.dumps(r, indent=1)[:6000])
