#!/usr/bin/env python3
"""dev aid: regenerate a replay's library into a dir and print the violation."""
import sys, os, json
sys.path.insert(0, os.path.dirname(os.path.dirname(os.path.abspath(__file__))))
from harness import driver, common
d = json.load(open(sys.argv[1])); case = d["case"]; out = sys.argv[2]
v = d.get("violation", {})
print(v.get("kind"), v.get("msg"))
det = v.get("detail") or {}
if isinstance(det, dict):
    dd = det.get("detail") or {}
    if isinstance(dd, dict) and dd.get("traceback"): print(dd["traceback"][-1500:])
os.makedirs(out, exist_ok=True)
res, req = driver.generate(case["api"], case["options"], out)
if res.error is not None: print(res.tb[-2000:])
else:
    driver.materialise(res.response, os.path.join(out, "out")); print("materialised", len(res.response.file), "files; options", case["options"]["params"])
