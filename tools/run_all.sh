#!/bin/bash
# dev aid: run a tier of several properties sequentially; usage: tools/run_all.sh <tier> <seed> ID...
tier=$1; seed=$2; shift 2
for id in "$@"; do
  echo "=== $id $tier seed=$seed $(date +%T)"
  VERIF_SEED=$seed /venv/bin/python run.py $id --tier $tier 2>&1 | grep -v "^KNOWN-FINDING" | tail -8 | cut -c1-1200
  mkdir -p /tmp/vp_found/$id; cp -r replays/$id/found/* /tmp/vp_found/$id/ 2>/dev/null
done
