#!/usr/bin/env python3
"""Development aid (not a registered check): create a scratch worktree for a
mutation sub-agent and print the prompt it is given. The prompt contains only
the property text and sandbox facts -- nothing from /verif's machinery."""
import json, subprocess, sys, os
pid, tag = sys.argv[1], (sys.argv[2] if len(sys.argv) > 2 else 'a')
hint = sys.argv[3] if len(sys.argv) > 3 else ''
p = next(json.loads(l) for l in open('/verif/properties.jsonl') if json.loads(l)['id'] == pid)
wt = f'/tmp/wt/{pid}{tag}'
if not os.path.exists(wt):
    subprocess.run(['git', '-C', '/repo', 'worktree', 'add', '-q', '--detach', wt, 'HEAD'], check=True)
os.makedirs(wt + '-out', exist_ok=True)
print(f"""You are helping to evaluate a verification harness for googleapis/gapic-generator-python (a protoc plugin that builds a schema model from protobuf descriptors and API annotations and renders Jinja templates into Python GAPIC client libraries). You have your own git worktree of the repository at {wt} . Work ONLY there and in {wt}-out ; never read or touch /repo or /verif.

PROPERTY {pid}: {p['title']}
Statement: {p['statement']}
Quantified over: {p['quantifier']['text']}
Code it is anchored in: {', '.join(p['anchors']['files'])}

YOUR TASK: make ONE small change to the generator's source under {wt}/gapic (Python code or Jinja templates, one or two sites) that BREAKS this property, such that
 (a) generation still runs and the emitted code still compiles for ordinary inputs;
 (b) the repository's existing test suite still passes unchanged: `cd {wt} && /venv/bin/python -m pytest -q -p no:cacheprovider -n 4 --continue-on-collection-errors 2>&1 | tail -3` must still report exactly `609 passed` (the 37 errors are pre-existing collection errors in this sandbox and are expected; do not edit tests);
 (c) ordinary use would NOT expose it at once: the breakage must need something specific to manifest -- an unusual but legal input shape, a particular combination of options/annotations, a multi-step sequence of operations (e.g. a third page, a second poll, a retry after a particular status), a particular value class (empty, default-valued, needs escaping), or two cooperating sites that each look fine alone. {hint}
It must look like a realistic regression a contributor could introduce (refactoring slip, off-by-one, wrong variable, dropped branch, lost sort, wrong default), NOT sabotage such as `if name == "magic"`.

DELIVERABLES in {wt}-out/ :
 - patch.diff : `git -C {wt} diff` of your change (source only, no tests, no new files outside gapic/).
 - demo.py : a standalone demonstration run as `PYTHONPATH=<tree>:/tmp/wt/_helpers /venv/bin/python demo.py` that exits 0 when <tree> is the unmodified repository and exits non-zero with a clear message when <tree> has your patch. Do not hard-code the tree path; `gapic` is resolved through PYTHONPATH (the /venv editable install points at /repo, PYTHONPATH overrides it -- print gapic.schema.api.__file__ at start so the tree in use is visible). Clean up temp dirs it creates.
 - notes.md : what the change is, why the existing tests do not notice, and exactly what is needed for it to manifest.
Verify both directions yourself with a second clean worktree (NEVER use `git stash`: the stash is shared by all worktrees of the repository and other agents work concurrently) made with `git -C {wt} worktree add --detach /tmp/wt/{pid}{tag}-clean HEAD`, removed afterwards).

SANDBOX FACTS: no network; there is NO protoc and NO pandoc binary. Descriptors must be built programmatically; /tmp/wt/_helpers/genhelper.py has `build_example()`, `field()`, `dep_files()` and `generate(target_fds, params)` (runs the generator in-process and writes the emitted library to a temp dir under /dev/shm; stubs pandoc), and /tmp/wt/_helpers/loopback_example.py shows how to drive an emitted client against loopback gRPC and HTTP servers. /venv/bin/python (3.12) has grpcio, google-api-core, proto-plus, requests, pytest, hypothesis. Service YAML / gRPC service-config files are passed via generator options `service-yaml=<path>` / `retry-config=<path>` (see gapic/utils/options.py). Keep CPU use modest (use -n 4 for pytest). Do not leave large files around.

When done, reply with: a 5-line summary (change, where, what it needs to manifest), and confirmation that (b) and both demo directions were verified, with the commands' last lines.""")
