"""dev aid: draw N random APIs, validate, generate; report failures by (exception type, message head)."""
import sys, os, time, json, collections, traceback
sys.path.insert(0, os.path.dirname(os.path.dirname(os.path.abspath(__file__))))
os.environ.setdefault("PYTHONHASHSEED", "0")
import hypothesis
from hypothesis import given, settings, HealthCheck, strategies as st
from harness import strategies as S, model as M, driver, common
N = int(sys.argv[1]) if len(sys.argv) > 1 else 50
seed = int(sys.argv[2]) if len(sys.argv) > 2 else 1
buckets = collections.Counter(); examples = {}
stats = collections.Counter()
@hypothesis.seed(seed)
@settings(max_examples=N, database=None, deadline=None, suppress_health_check=list(HealthCheck), phases=[hypothesis.Phase.generate])
@given(S.apis(), S.option_sets())
def t(api, opts):
    stats["n"] += 1
    try:
        fds, names = M.compile_api(api); M.validate(fds)
    except Exception as e:
        k = "INVALID " + type(e).__name__ + ": " + str(e)[:150]
        buckets[k] += 1; examples.setdefault(k, api); return
    with common.scratch() as d:
        res, req = driver.generate(api, opts, d)
    if res.error is not None:
        k = "GEN " + type(res.error).__name__ + ": " + str(res.error)[:150]
        buckets[k] += 1; examples.setdefault(k, (api, opts, res.tb[-1500:]))
    else:
        stats["ok"] += 1; stats["files"] += len(res.response.file)
        stats["methods"] += sum(1 for _ in M.all_methods(api))
t0 = time.time(); t()
print(dict(stats), f"{time.time()-t0:.1f}s")
for k, v in buckets.most_common():
    print(v, k)
json.dump({k: v for k, v in examples.items()}, open("/tmp/try_gen_examples.json", "w"), indent=1, default=str)
