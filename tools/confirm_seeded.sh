#!/bin/bash
# dev aid: confirm a sub-agent's mutation independently and file it under /verif/seeded/<name>/.
# usage: tools/confirm_seeded.sh <agent out dir> <name> <property id>
set -u
src=$1; name=$2; pid=$3
wt=/tmp/wt/confirm-$name
rm -rf "$wt"; git -C /repo worktree add -q --detach "$wt" HEAD || exit 2
cd "$wt" && git apply "$src/patch.diff" || { echo "PATCH DOES NOT APPLY"; git -C /repo worktree remove --force "$wt"; exit 2; }
suite=$(/verif/tools/baseline.py "$wt" | head -1)
cd /tmp && PYTHONPATH=$wt:/tmp/wt/_helpers timeout 600 /venv/bin/python "$src/demo.py" > /tmp/demo-$name-patched.log 2>&1; rcp=$?
cd /tmp && PYTHONPATH=/repo:/tmp/wt/_helpers timeout 600 /venv/bin/python "$src/demo.py" > /tmp/demo-$name-clean.log 2>&1; rcc=$?
git -C /repo worktree remove --force "$wt"
echo "$name: suite=[$suite] demo patched rc=$rcp clean rc=$rcc"
if [[ "$suite" == *"609 passed, 0 missing"* && $rcp -ne 0 && $rcc -eq 0 ]]; then
  d=/verif/seeded/$name; mkdir -p $d; cp "$src/patch.diff" "$src/demo.py" $d/; [ -f "$src/notes.md" ] && cp "$src/notes.md" $d/
  python3 - "$d" "$pid" "$suite" "$rcp" "$rcc" <<'PY'
import json, sys
d, pid, suite, rcp, rcc = sys.argv[1:]
notes = open(d + "/notes.md").read() if __import__("os").path.exists(d + "/notes.md") else ""
json.dump({"property": pid, "origin": "independent sub-agent given only the property text and a scratch worktree",
           "needs_to_manifest": notes[:1500],
           "confirmed": {"pinned_suite_on_patched_tree": suite, "demo_rc_patched": int(rcp), "demo_rc_clean": int(rcc),
                         "how": "tools/confirm_seeded.sh: fresh worktree of /repo HEAD, git apply patch.diff, tools/baseline.py, demo.py with PYTHONPATH=<patched> and with PYTHONPATH=/repo"},
           "detected_by": []}, open(d + "/meta.json", "w"), indent=1)
PY
  echo "  filed under $d"
else
  echo "  NOT CONFIRMED"; tail -5 /tmp/demo-$name-patched.log /tmp/demo-$name-clean.log
fi
