#!/usr/bin/env python3
"""Run the repository's pinned suite (guard off) and compare with /root/.vp/BASELINE.json stable_pass."""
import json, subprocess, sys, tempfile, os, xml.etree.ElementTree as ET
repo = sys.argv[1] if len(sys.argv) > 1 else "/repo"
base = json.load(open("/root/.vp/BASELINE.json"))
with tempfile.TemporaryDirectory() as d:
    x = os.path.join(d, "j.xml")
    subprocess.run(["/venv/bin/python", "-m", "pytest", "-q", "-p", "no:cacheprovider", "--timeout=900", "-n", "8",
                    "--continue-on-collection-errors", f"--junitxml={x}"], cwd=repo, capture_output=True)
    passed = set()
    for tc in ET.parse(x).getroot().iter("testcase"):
        if not list(tc):
            passed.add(f"{tc.get('classname')}::{tc.get('name')}")
want = set(base["stable_pass"])
missing = sorted(want - passed)
print(f"baseline: {len(want)} expected, {len(want & passed)} passed, {len(missing)} missing")
for m in missing[:20]:
    print("  MISSING", m)
sys.exit(1 if missing else 0)
