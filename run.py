#!/venv/bin/python
"""Single entry point: run.py <ID> --tier quick|thorough [--replay FILE]

exit 0 = property held on everything explored
exit 1 = violation(s); one line `VIOLATION property=<ID> replay=<path>` each
exit 2 = harness error (never a VIOLATION line)
"""
import argparse, os, sys, traceback

HERE = os.path.dirname(os.path.abspath(__file__))
sys.path.insert(0, HERE)
os.environ.setdefault("PYTHONHASHSEED", "0")


def main():
    ap = argparse.ArgumentParser()
    ap.add_argument("pid")
    ap.add_argument("--tier", default=os.environ.get("VERIF_TIER", "quick"), choices=["quick", "thorough"])
    ap.add_argument("--replay")
    ap.add_argument("--seed", type=int)
    a = ap.parse_args()
    from harness import engine
    try:
        if a.replay:
            return engine.replay_file(a.pid.upper(), a.replay)
        return engine.run_property(a.pid.upper(), a.tier, a.seed)
    except SystemExit:
        raise
    except BaseException:
        traceback.print_exc()
        return 2


if __name__ == "__main__":
    sys.exit(main())
