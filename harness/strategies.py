"""Hypothesis strategies over the API model (DESIGN 4.1) and the option model (4.2).

Construction over rejection: every shape is built valid; the only filtering is name
de-duplication (done by construction through a `used` set with numeric suffixes).
One builder, parameterised by a profile dict of weights / switches.
"""
import copy, keyword

from hypothesis import strategies as st

from . import model as M

# ---------------------------------------------------------------------------
# vocabularies

FIELD_WORDS = ["alpha", "beta", "gamma", "delta", "shelf", "book", "page", "title", "author", "size", "count",
               "flag", "data", "kind", "state", "labels", "tags", "note", "display_name", "create_time",
               "etag", "uid", "region", "zone", "project_id", "level", "ratio", "payload", "owner", "mode",
               "a", "b2", "x_y_z", "value", "key", "id", "description", "parent_id", "view", "order_by"]
TYPE_WORDS = ["Book", "Shelf", "Page", "Author", "Note", "Detail", "Item", "Entry", "Config", "Spec", "Status",
              "Info", "Policy", "Rule", "Node", "Tree", "Blob", "Event", "Record", "Batch", "Widget", "Gadget",
              "Thing", "Unit", "Zone", "Asset", "Report", "Job", "Task", "Label"]
ENUM_WORDS = ["Color", "Kind", "State", "Level", "Mode", "Phase", "Tier", "Shape", "Flavor", "View"]
VERBS = ["Get", "List", "Create", "Update", "Delete", "Frob", "Move", "Check", "Run", "Scan", "Fetch", "Put",
         "Send", "Query", "Watch", "Export", "Undelete", "Batch", "Search", "Compute"]
SERVICE_WORDS = ["Library", "Catalog", "Registry", "Storage", "Indexer", "Manager", "Admin", "Engine"]
RESERVED = ["any", "format", "yield", "await", "False", "return", "continue", "as", "pass", "next", "class",
            "list", "breakpoint", "import", "mapping", "zip", "locals", "max", "and", "finally", "dir", "def",
            "elif", "from", "nonlocal", "min", "not", "object", "global", "with", "else", "__peg_parser__",
            "del", "range", "open", "assert", "all", "except", "while", "license", "raise", "True", "lambda",
            "for", "or", "if", "in", "async", "slice", "is", "break", "hash", "None", "try", "type", "exec",
            "help", "ignore_unknown_fields", "self", "cls"]          # frozen copy as of the pinned commit
RESERVED_LOWER = [w for w in RESERVED if w == w.lower() and not w.startswith("__")]
KEYWORD_RPCS = ["Import", "Continue", "Return", "Pass", "With", "Is", "Class", "From", "Global", "Yield",
                "Raise", "Try", "Del", "Not", "Lambda", "Assert"]
TRANSPORT_COLLIDING_RPCS = ["CreateChannel", "GrpcChannel", "OperationsClient"]

DEP_MESSAGES = [".google.protobuf.Timestamp", ".google.protobuf.Duration", ".google.protobuf.FieldMask",
                ".google.protobuf.Struct", ".google.protobuf.Value", ".google.protobuf.Any",
                ".google.protobuf.Int32Value", ".google.protobuf.StringValue", ".google.protobuf.BoolValue",
                ".google.protobuf.Empty", ".google.type.Date", ".google.type.LatLng", ".google.type.Money",
                ".google.rpc.Status", ".google.type.Expr", ".google.iam.v1.Policy"]
DEP_ENUMS = [".google.rpc.Code", ".google.type.DayOfWeek"]   # NullValue has a JSON special form (null), not a plain enum
DEP_REQUESTS = [".google.protobuf.Empty", ".google.protobuf.Struct", ".google.iam.v1.GetIamPolicyRequest",
                ".google.iam.v1.SetIamPolicyRequest", ".google.iam.v1.TestIamPermissionsRequest",
                ".google.longrunning.GetOperationRequest", ".google.longrunning.ListOperationsRequest",
                ".google.cloud.location.GetLocationRequest", ".google.protobuf.Timestamp"]
DEP_RESPONSES = [".google.protobuf.Empty", ".google.protobuf.Struct", ".google.iam.v1.Policy",
                 ".google.iam.v1.TestIamPermissionsResponse", ".google.cloud.location.Location",
                 ".google.protobuf.Timestamp", ".google.rpc.Status", ".google.api.HttpBody"]

BASE_PROFILE = {
    "packages": None,            # None -> drawn
    "max_files": 3, "p_subpackage": 0.25, "max_services": 2, "max_methods": 5,
    "max_messages": 6, "max_fields": 7, "max_depth": 3,
    "p_reserved_field": 0.06, "p_dep_type": 0.15, "p_map": 0.12, "p_repeated": 0.15, "p_optional": 0.15,
    "p_oneof": 0.4, "p_nested": 0.4, "p_recursive": 0.1, "p_comment": 0.3,
    "p_http": 0.7, "p_additional": 0.2, "p_sig": 0.5, "p_routing": 0.15, "p_paged": 0.15, "p_lro": 0.12,
    "p_stream": 0.2, "p_dep_io": 0.12, "p_resource": 0.3, "p_required": 0.15, "p_sparse_numbers": 0.15,
    "p_keyword_rpc": 0.0, "p_deprecated": 0.05,
    "services_in_subpackages": False,     # finding A1/A2
    "rich_comments": False,
}


def profile(**kw):
    p = dict(BASE_PROFILE)
    p.update(kw)
    return p


def _p(draw, prob):
    """Bernoulli draw that shrinks towards False."""
    if prob <= 0:
        return False
    if prob >= 1:
        return True
    return draw(st.floats(0, 1, allow_nan=False)) > (1 - prob)


class Names:
    """Unique names per scope. By default names are unique ignoring case; with case_twins names that differ
    only in letter case (Url / URL) may coexist, as protobuf allows."""

    def __init__(self, case_twins=False):
        self.used = set()
        self.case_twins = case_twins

    def _k(self, n):
        return n if self.case_twins else n.lower()

    def fresh(self, base):
        n, i = base, 1
        while self._k(n) in self.used:
            i += 1
            n = f"{base}{i}"
        self.used.add(self._k(n))
        return n


COMMENT_WORDS = ["The", "resource", "name", "of", "value", "to", "use.", "Required.", "Optional.", "Must", "be",
                 "unique", "within", "parent:", "format", "see", "e.g.", "example", "list", "- item", "long" * 9]


@st.composite
def plain_comment(draw):
    n = draw(st.integers(1, 25))
    ws = draw(st.lists(st.sampled_from(COMMENT_WORDS), min_size=n, max_size=n))
    seps = draw(st.lists(st.sampled_from([" ", " ", " ", "\n ", "\n\n ", ":\n "]), min_size=n, max_size=n))
    return " " + "".join(w + s for w, s in zip(ws, seps)).rstrip() + "\n"


class Builder:
    def __init__(self, draw, prof):
        self.draw, self.p = draw, prof
        self.names = {}          # package -> Names
        self.pool = []           # [{"full": ".pkg.Msg", "kind": "message"|"enum", "file": i, "msg": dict|None}]
        self.resources = []      # [{"type","patterns","msg_full"}]
        self.files = []
        self.excluded = []
        self.versioned = True
        self.root = None
        self.cur_pkg = None

    # -- helpers -----------------------------------------------------------
    def d(self, s):
        return self.draw(s)

    def coin(self, key):
        return _p(self.draw, self.p[key])

    def ns(self, pkg):
        return self.names.setdefault(pkg, Names(self.p.get("case_twins", False)))

    def comment(self):
        if not self.coin("p_comment"):
            return None
        if self.p.get("rich_comments"):
            from . import textgen
            return self.d(textgen.comment_text(markup=False, tabs=True, max_words=20,
                                               quotes=self.p.get("comment_quotes", True),
                                               backslash=self.p.get("comment_backslash", False)))
        return self.d(plain_comment())

    def package(self):
        if self.p.get("packages"):
            return self.d(st.sampled_from(self.p["packages"]))
        ns = self.d(st.sampled_from([["acme"], ["acme"], [], ["acme", "cloud"], ["foo", "bar", "baz"], ["google", "cloud"]]))
        if not ns and not self.p.get("allow_no_namespace"):
            self.excluded.append("F-no-namespace")       # known finding: steer away, counted
            ns = ["acme"]
        name = self.d(st.sampled_from(["lib", "lib", "library", "my_api", "storage2", "x"]))
        ver = self.d(st.sampled_from(["v1", "v1", "v1", "v2", "v1beta1", "v1p1beta1", "v2alpha", None]))
        self.versioned = bool(ver)
        return ".".join(ns + [name] + ([ver] if ver else []))

    # -- types -------------------------------------------------------------
    def enum(self, names, base=None):
        name = names.fresh(base or self.d(st.sampled_from(ENUM_WORDS)))
        n = self.d(st.integers(1, 5))
        prefix = M.camel(name).upper() if False else "".join(("_" + c if c.isupper() and i else c) for i, c in enumerate(name)).upper()
        vals = [[f"{prefix}_UNSPECIFIED", 0]]
        nums = self.d(st.lists(st.integers(1, 1000), min_size=n - 1, max_size=n - 1, unique=True))
        for i, v in enumerate(nums):
            vals.append([f"{prefix}_{['RED','GREEN','BLUE','LARGE','SMALL','ODD'][i % 6]}{'' if i < 6 else i}", v if self.coin("p_sparse_numbers") else i + 1])
        # numbers must be unique (no allow_alias)
        seen, out = set(), []
        for nme, v in vals:
            while v in seen:
                v += 1
            seen.add(v)
            out.append([nme, v])
        e = {"name": name, "values": out}
        if self.p.get("p_enum_alias") and len(out) >= 2 and self.coin("p_enum_alias"):
            # option allow_alias: further names for numbers already in use
            e["allow_alias"] = True
            for j in range(self.d(st.integers(1, 2))):
                nme, v = out[self.d(st.integers(0, len(out) - 1))]
                e["values"].append([f"{prefix}_ALIAS{j}", v])
        c = self.comment()
        if c:
            e["comment"] = c
        return e

    def skeleton(self, pkg_prefix, names, depth, fileidx, base=None):
        """Phase 1: message name + nested structure, registered in the pool."""
        words = TYPE_WORDS + (["Url", "URL", "Id", "ID", "Ip", "IP", "Item", "ITEM"] * 3 if self.p.get("case_twins") else [])
        name = names.fresh(base or self.d(st.sampled_from(words)))
        m = {"name": name, "fields": [], "oneofs": [], "nested": [], "enums": []}
        full = f"{pkg_prefix}.{name}"
        self.pool.append({"full": "." + full, "kind": "message", "file": fileidx, "msg": m, "pkg": self.cur_pkg})
        if depth < self.p["max_depth"] and self.coin("p_nested"):
            inner = Names()
            for _ in range(self.d(st.integers(1, 2))):
                if self.d(st.booleans()):
                    m["nested"].append(self.skeleton(full, inner, depth + 1, fileidx))
                else:
                    e = self.enum(inner)
                    m["enums"].append(e)
                    self.pool.append({"full": f".{full}.{e['name']}", "kind": "enum", "file": fileidx, "msg": None, "pkg": self.cur_pkg})
        return m

    def field_name(self, used, fileidx=0):
        if self.p.get("p_module_named_field") and self.coin("p_module_named_field"):
            # a field named like a module the types file imports: `proto` itself or a sibling proto file of the API
            base = self.d(st.sampled_from(["proto", "proto", "lib", "types", "resources", "service", "common", "admin"]))
            n, i = base, 1
            while n in used:
                i += 1
                n = f"{base}_{i}"
            used.add(n)
            return n
        if self.coin("p_reserved_field"):
            base = self.d(st.sampled_from(RESERVED_LOWER))
            if fileidx == -1 and keyword.iskeyword(base):
                # known finding F-dep-keyword-path: a field of a message that is not proto-plus named by a Python keyword
                self.excluded.append("F-dep-keyword-path")
                base = self.d(st.sampled_from(FIELD_WORDS))
        else:
            base = self.d(st.sampled_from(FIELD_WORDS))
        n, i = base, 1
        while n in used:
            i += 1
            n = f"{base}_{i}"
        used.add(n)
        return n

    def type_ref(self, fileidx, kind, self_full=None):
        """Pick a message/enum type visible from file `fileidx`."""
        if self.coin("p_dep_type"):
            return self.d(st.sampled_from((self.p.get("dep_messages") or DEP_MESSAGES) if kind == "message" else DEP_ENUMS))
        cands = [t for t in self.pool if t["kind"] == kind and t["file"] <= fileidx]
        if self.cur_pkg != self.root and not self.p.get("allow_sub_to_root_refs"):
            # known finding F-subpackage-import-cycle: a sub-package file referencing a root-package type
            # while a root file references the sub-package makes the emitted packages import each other
            kept = [t for t in cands if t["pkg"] != self.root]
            if len(kept) != len(cands):
                self.excluded.append("F-subpackage-import-cycle")
            cands = kept
        cands = [t["full"] for t in cands]
        if kind == "message" and self_full and self.coin("p_recursive"):
            return self_full
        if not cands:
            return self.d(st.sampled_from(DEP_MESSAGES if kind == "message" else DEP_ENUMS))
        return self.d(st.sampled_from(cands))

    def field(self, name, number, fileidx, self_full=None, kinds=None):
        k = self.d(st.sampled_from(kinds or ["scalar", "scalar", "scalar", "scalar", "enum", "message", "message", "map"]))
        f = {"name": name, "number": number}
        if k == "map" and not self.coin("p_map"):
            k = "scalar"
        if k == "scalar":
            f["type"] = self.d(st.sampled_from(M.SCALAR_NAMES + ["string", "string", "int32", "bool"]))
        elif k in ("enum", "message"):
            f["type"] = k
            f["type_name"] = self.type_ref(fileidx, k, self_full)
        else:
            f["type"] = "map"
            f["map_key"] = self.d(st.sampled_from(M.MAP_KEY_TYPES + ["string", "string"]))
            vk = self.d(st.sampled_from(["scalar", "scalar", "enum", "message"]))
            if vk == "scalar":
                f["map_value"] = {"type": self.d(st.sampled_from(M.SCALAR_NAMES))}
            else:
                f["map_value"] = {"type": vk, "type_name": self.type_ref(fileidx, vk, self_full)}
        if f["type"] != "map":
            if self.coin("p_repeated") and (f["type"] != "message" or self.p.get("repeated_messages", True)):
                f["repeated"] = True
            elif self.coin("p_optional"):
                f["optional"] = True
            elif self.p.get("required_fields") and self.coin("p_required"):
                f["required"] = True
        c = self.comment()
        if c:
            f["comment"] = c
        return f

    def numbers(self, n):
        if self.coin("p_sparse_numbers"):
            nums = self.d(st.lists(st.one_of(st.integers(1, 60), st.integers(1, 18999), st.integers(20000, 536870911 - 400)),
                                   min_size=n, max_size=n, unique=True))
            return nums
        return list(range(1, n + 1))

    def fill(self, m, full, fileidx, nfields=None, reserve=()):
        """Phase 2: fields and oneofs of a skeleton (and of its nested messages)."""
        n = self.d(st.integers(0, self.p["max_fields"])) if nfields is None else nfields
        used = set(reserve) | {f["name"] for f in m["fields"]}
        taken = {f["number"] for f in m["fields"]}
        nums = []
        for x in self.numbers(n):
            while x in taken or 19000 <= x <= 19999:
                x += 1
            taken.add(x)
            nums.append(x)
        for i in range(n):
            m["fields"].append(self.field(self.field_name(used, fileidx), nums[i], fileidx, "." + full))
        if self.coin("p_oneof"):
            singles = [f for f in m["fields"] if not f.get("repeated") and f["type"] != "map" and not f.get("optional") and not f.get("required")]
            k = self.d(st.integers(0, min(2, len(singles))))
            idx = 0
            for o in range(k):
                oname = ["choice", "variant"][o]
                if oname in used:
                    continue
                size = self.d(st.integers(1, max(1, len(singles) - idx - (k - o - 1))))
                members = singles[idx: idx + size]
                idx += size
                if members:
                    m["oneofs"].append(oname)
                    used.add(oname)
                    for f in members:
                        f["oneof"] = oname
        c = self.comment()
        if c:
            m["comment"] = c
        for nm in m["nested"]:
            self.fill(nm, f"{full}.{nm['name']}", fileidx)

    # -- resources ---------------------------------------------------------
    def make_resource(self, m, full, host):
        coll = m["name"].lower() + "s"
        var = "".join(("_" + c.lower() if c.isupper() and i else c.lower()) for i, c in enumerate(m["name"]))
        pats = [f"{coll}/{{{var}}}"]
        shape = self.d(st.integers(0, 3))
        if shape == 1:
            pats = [f"projects/{{project}}/{coll}/{{{var}}}"]
        elif shape == 2:
            pats = [f"projects/{{project}}/locations/{{location}}/{coll}/{{{var}}}"]
        elif shape == 3:
            pats = [f"projects/{{project}}/{coll}/{{{var}}}", f"folders/{{folder}}/{coll}/{{{var}}}"]
        rtype = f"{host}/{m['name']}"
        if self.p.get("twin_resources"):
            short = self.d(st.sampled_from(["Thing", "Thing", "Item", m["name"]]))
            rhost = self.d(st.sampled_from([host, "a.example.com", "b.example.com", "c.example.com"]))
            cand = f"{rhost}/{short}"
            if cand not in [r["type"] for r in self.resources]:
                rtype = cand
        if self.p.get("rich_patterns"):
            shape = self.d(st.integers(0, 6))
            if shape == 0:
                pats = [f"{coll}/{{{var}=**}}"]
            elif shape == 1:
                pats = [f"projects/{{project}}/{coll}/{{{var}=**}}"]
            elif shape == 2:
                pats = [f"{coll}/{{{var}}}-{{{var}_region}}"]
            elif shape == 3:
                pats = [f"projects/{{project}}/{coll}/{{{var}}}.{{{var}_zone}}/settings"]
            elif shape == 4:
                pats = [f"{coll}/{{{var}}}~{{{var}_part}}_{{{var}_piece}}"]
        m["resource"] = {"type": rtype, "patterns": pats}
        if not any(f["name"] == "name" for f in m["fields"]):
            m["fields"].append({"name": "name", "number": _free_number(m["fields"]), "type": "string"})
        if any(r["type"] == m["resource"]["type"] for r in self.resources):
            del m["resource"]
            return
        self.resources.append({"type": m["resource"]["type"], "patterns": pats, "msg_full": "." + full})

    # -- methods -----------------------------------------------------------
    def string_paths(self, msg, fileidx, prefix="", depth=0, no_oneof=False):
        """Dotted paths to singular string fields reachable through singular local message fields."""
        out = []
        for f in msg["fields"]:
            if f.get("repeated") or f["type"] == "map":
                continue
            if no_oneof and f.get("oneof"):
                continue      # members of one oneof exclude each other: not usable together as path variables
            if f["type"] == "string":
                out.append((prefix + f["name"], f))
            elif f["type"] == "message" and depth < 2:
                sub = next((t["msg"] for t in self.pool if t["full"] == f["type_name"] and t["msg"] is not None), None)
                if sub is not None and sub is not msg:
                    out.extend(self.string_paths(sub, fileidx, prefix + f["name"] + ".", depth + 1, no_oneof))
        return out

    def http_rule(self, req, fileidx, verb=None, allow_body=True):
        paths = self.string_paths(req, fileidx, no_oneof=True)
        verb = verb or self.d(st.sampled_from(["get", "post", "post", "put", "patch", "delete"]))
        segs = ["v1"]
        nvars = min(len(paths), self.d(st.sampled_from([0, 1, 1, 2, 2, 3]))) if paths else 0
        chosen = []
        if nvars:
            idxs = self.d(st.lists(st.integers(0, len(paths) - 1), min_size=nvars, max_size=nvars, unique=True))
            chosen = [paths[i][0] for i in idxs]
        for i, v in enumerate(chosen):
            form = self.d(st.integers(0, 4))
            coll = ["shelves", "books", "items", "projects"][i % 4]
            if form == 0:
                segs += [coll, "{%s}" % v]
            elif form == 1:
                segs.append("{%s=%s/*}" % (v, coll))
            elif form == 2:
                segs.append("{%s=%s/*/sub/*}" % (v, coll))
            elif form == 3 and i == len(chosen) - 1:
                segs.append("{%s=%s/**}" % (v, coll))
            else:
                segs += [coll, "{%s=*}" % v]
        if not chosen or self.d(st.booleans()):
            segs.append(self.d(st.sampled_from(["things", "all", "ops"])))
        uri = "/" + "/".join(segs)
        if self.d(st.integers(0, 4)) == 0:
            uri += ":" + self.d(st.sampled_from(["frob", "cancel", "run"]))
        rule = {"verb": verb, "uri": uri}
        if allow_body and verb in ("post", "put", "patch"):
            b = self.d(st.integers(0, 3))
            if b <= 1:
                rule["body"] = "*"
            elif b == 2:
                # the body field may contain a path variable ({book.name=...} with body: "book" is the usual Update shape)
                tops = [f for f in req["fields"] if f["type"] == "message" and not f.get("repeated") and not f.get("oneof")
                        and f["name"] not in [c for c in chosen if "." not in c]]
                if tops:
                    rule["body"] = self.d(st.sampled_from([f["name"] for f in tops]))
        return rule, chosen

    def sig_paths(self, req, depth=0, prefix="", in_dep=False):
        """candidate method_signature paths: top-level fields and dotted paths through singular local messages."""
        out = []
        for f in req["fields"]:
            if in_dep and f["name"] in RESERVED and (f["name"] == "self" or not self.p.get("dep_reserved_flattened_ok") or _p(self.draw, 0.5)):
                # known finding F-dep-reserved-flattened: the parameter for a reserved-word field of a message that is
                # not proto-plus keeps the bare name (`self` then clashes with the method's own first parameter). Steered
                # away from; under C05 (dep_reserved_flattened_ok) only half of the time: its oracle goes on under the
                # offered name
                self.excluded.append("F-dep-reserved-flattened")
            elif in_dep and (f.get("repeated") or f["type"] in ("map", "message")):
                # known finding F-dep-flattened-composite: the client assigns the parameter to the field, which a
                # message that is not proto-plus refuses for repeated, map and message fields
                self.excluded.append("F-dep-flattened-composite")
            else:
                out.append((prefix + f["name"], f))
            if f["type"] == "message" and not f.get("repeated") and depth < 2:
                t = next((t for t in self.pool if t["full"] == f["type_name"] and t["msg"] is not None), None)
                if t is not None and t["msg"] is not req:
                    out.extend(self.sig_paths(t["msg"], depth + 1, prefix + f["name"] + ".", in_dep or t["file"] == -1))
        return out

    def signature(self, req, fileidx, used_leaves):
        cands = self.sig_paths(req)
        if not self.p.get("dotted_signatures", True):
            cands = [c for c in cands if "." not in c[0]]
        if not cands:
            return ""
        k = self.d(st.integers(1, min(4, len(cands))))
        idxs = self.d(st.lists(st.integers(0, len(cands) - 1), min_size=k, max_size=k, unique=True))
        parts = []
        for j, i in enumerate(idxs):
            path, f = cands[i]
            leaf = path.split(".")[-1]
            if (f.get("repeated") or f["type"] == "map") and j != len(idxs) - 1:
                continue          # a repeated field only as the last parameter
            if any(o != path and (o.startswith(path + ".") or path.startswith(o + ".")) for o in used_leaves.values()):
                continue          # a message and a field inside it both flattened: assignment order would matter
            if used_leaves.get(leaf, path) != path:
                # two paths with the same leaf name would yield two parameters of one name
                self.excluded.append("dup-flattened-leaf")
                continue
            used_leaves[leaf] = path
            parts.append(path)
        return ",".join(parts)

    def io_home(self, file, pkg, names, fileidx):
        """Where a method's request/response message is defined: normally the service's file, sometimes an
        earlier target file (possibly in another proto sub-package)."""
        if fileidx > 0 and _p(self.draw, self.p.get("p_foreign_io", 0.0)):
            j = self.d(st.integers(0, fileidx - 1))
            f = self.api_files[j]
            return f, f["package"], self.ns(f["package"]), j
        return file, pkg, names, fileidx

    def request_message(self, file, pkg, names, fileidx, base, special=None):
        file, pkg, names, fileidx = self.io_home(file, pkg, names, fileidx)
        saved, self.cur_pkg = self.cur_pkg, pkg
        try:
            m = self.skeleton(pkg, names, self.p["max_depth"], fileidx, base=base)   # no nested types
            if special:
                m["fields"].extend(copy.deepcopy(special))
            self.fill(m, f"{pkg}.{m['name']}", fileidx, reserve=())
            if self.p.get("twin_required_message_fields"):
                for fld in list(m["fields"]):
                    if fld["type"] == "message" and fld.get("required") and not fld.get("repeated") and _p(self.draw, 0.4):
                        twin = {k: v for k, v in fld.items() if k not in ("comment", "oneof")}
                        twin["name"] = fld["name"] + "_twin"
                        twin["number"] = _free_number(m["fields"])
                        m["fields"].append(twin)
                        break
            file["messages"].append(m)
        finally:
            self.cur_pkg = saved
        m["_pkg"] = pkg
        return m

    def method(self, file, pkg, names, fileidx, mnames, host):
        verb = self.d(st.sampled_from(VERBS))
        noun = self.d(st.sampled_from(TYPE_WORDS))
        seen = [n for n in getattr(self, "_rpc_names_seen", []) if n.lower() not in mnames.used]
        if seen and self.p.get("p_twin_rpc") and self.coin("p_twin_rpc"):
            # the short name of an RPC of another service (the two are distinct methods with distinct requests)
            name = self.d(st.sampled_from(seen))
            mnames.used.add(name.lower())
        elif self.coin("p_keyword_rpc"):
            name = self.d(st.sampled_from(KEYWORD_RPCS + TRANSPORT_COLLIDING_RPCS))
            if name.lower() in mnames.used:
                name = mnames.fresh(verb + noun)
            else:
                mnames.used.add(name.lower())
        else:
            name = mnames.fresh(verb + noun)
        meth = {"name": name}
        if self.p.get("p_twin_rpc"):
            self._rpc_names_seen = sorted(set(getattr(self, "_rpc_names_seen", [])) | {name})
        kind = "plain"
        if self.coin("p_paged"):
            kind = "paged"
        elif self.coin("p_lro"):
            kind = "lro"
        # request
        if kind == "plain" and self.coin("p_dep_io"):
            meth["input"] = self.d(st.sampled_from(DEP_REQUESTS))
            req = None
        else:
            special = []
            if kind == "paged":
                special = self.paged_request_fields()
            req = self.request_message(file, pkg, names, fileidx, f"{name}Request", special)
            meth["input"] = f".{req.pop('_pkg')}.{req['name']}"
        # response
        if kind == "paged":
            resp = self.skeleton(pkg, names, self.p["max_depth"], fileidx, base=f"{name}Response")
            resp["fields"] = self.paged_response_fields(fileidx)
            file["messages"].append(resp)
            meth["output"] = f".{pkg}.{resp['name']}"
        elif kind == "lro":
            meth["output"] = ".google.longrunning.Operation"
            # top-level messages of the target API visible by name: the method's own package (relative or
            # fully-qualified names) and other packages of the API (fully-qualified only); the defining file
            # need not be imported by the service's file, so later files count too
            def top(t):
                return t["kind"] == "message" and t["msg"] is not None and t["file"] >= 0 and t["full"].count(".") == t["pkg"].count(".") + 2
            same = [t for t in self.pool if top(t) and t["pkg"] == pkg]
            other = [t for t in self.pool if top(t) and t["pkg"] != pkg]
            def name_of(t):
                if t["pkg"] == pkg and self.d(st.booleans()):
                    return t["full"][len(pkg) + 2:]          # relative to the method's package
                return t["full"][1:]
            def pick():
                if other and _p(self.draw, 0.3):
                    return name_of(self.d(st.sampled_from(other)))
                if same:
                    return name_of(self.d(st.sampled_from(same)))
                return "google.protobuf.Empty"
            r = "google.protobuf.Empty" if self.d(st.integers(0, 5)) == 0 else pick()
            md = pick()
            variant = self.d(st.sampled_from(["ok"] * 8 + ["no-annotation", "missing-response", "missing-metadata", "missing-both"])) if self.p.get("lro_variants") else "ok"
            if variant == "no-annotation":
                pass                                   # raw Operation is returned
            elif variant == "missing-both":
                meth["lro"] = {"response": "", "metadata": ""}      # the annotation is present but empty
            elif variant == "missing-response":
                meth["lro"] = {"response": "", "metadata": md}
            elif variant == "missing-metadata":
                meth["lro"] = {"response": r, "metadata": ""}
            else:
                meth["lro"] = {"response": r, "metadata": md}
        elif self.coin("p_dep_io"):
            meth["output"] = self.d(st.sampled_from(DEP_RESPONSES))
        else:
            cands = [t["full"] for t in self.pool if t["kind"] == "message" and t["file"] <= fileidx]
            if cands and self.d(st.booleans()):
                meth["output"] = self.d(st.sampled_from(cands))
            else:
                # now and then the API's own message called Empty (only google.protobuf.Empty means "no response")
                own_empty = self.p.get("p_own_empty") and self.coin("p_own_empty")
                resp = self.skeleton(pkg, names, self.p["max_depth"], fileidx, base="Empty" if own_empty else f"{name}Response")
                self.fill(resp, f"{pkg}.{resp['name']}", fileidx, nfields=self.d(st.integers(1, 3)) if own_empty else None)
                file["messages"].append(resp)
                meth["output"] = f".{pkg}.{resp['name']}"
        # streaming
        if kind == "plain" and self.coin("p_stream"):
            s = self.d(st.integers(0, 2))
            if s == 1 and self.p.get("avoid_client_streaming_unary"):
                self.excluded.append("F-async-cs-sample")     # known finding (C14): asyncio sample never awaits the call
                s = 2
            meth["ss"] = s in (0, 2)
            meth["cs"] = s in (1, 2)
            if meth["output"] == ".google.protobuf.Empty" and not self.p.get("allow_streaming_void"):
                # known findings F-streaming-void / F-async-cs-void: with an Empty response type the client drops
                # the response stream (returns None) / never awaits the client-streaming call
                self.excluded.append("F-streaming-void" if meth["ss"] else "F-async-cs-void")
                meth["output"] = ".google.protobuf.Struct"
        # annotations that need a local request message
        if req is not None:
            if self.coin("p_http"):
                rule, chosen = self.http_rule(req, fileidx, verb={"Get": "get", "List": "get", "Delete": "delete", "Update": "patch"}.get(verb))
                for c in chosen:       # path fields are usually REQUIRED (AIP-203)
                    if "." not in c and _p(self.draw, self.p.get("p_path_required", 0.0)):
                        fld = next(x for x in req["fields"] if x["name"] == c)
                        if not fld.get("oneof") and not fld.get("optional"):
                            fld["required"] = True
                if self.p.get("p_custom_verb") and self.coin("p_custom_verb"):
                    # the `custom` pattern of google.api.http (no REST binding is emitted for it; its path still names the
                    # implicit routing fields)
                    rule = {"verb": "custom", "kind": self.d(st.sampled_from(["HEAD", "OPTIONS"])), "uri": rule["uri"]}
                elif self.coin("p_additional"):
                    rule["additional"] = []
                    for _ in range(self.d(st.integers(1, 2))):
                        r2, _c = self.http_rule(req, fileidx)
                        if not self.p.get("allow_additional_binding_mismatch"):
                            # known finding F-rest-additional-bindings: the REST transport derives body handling and
                            # required-field defaults from the PRIMARY binding only
                            if r2.get("body") != rule.get("body"):
                                self.excluded.append("F-rest-additional-bindings")
                                r2.pop("body", None)
                                if rule.get("body"):
                                    r2["body"] = rule["body"]
                                    if r2["verb"] in ("get", "delete"):
                                        r2["verb"] = "post"
                                body_top = rule.get("body")
                                if body_top and body_top != "*" and any(v == body_top for v in T_variables(r2["uri"])):
                                    continue
                            if any(f.get("required") for f in req["fields"]):
                                self.excluded.append("F-rest-additional-bindings")
                                for f in req["fields"]:
                                    f.pop("required", None)
                        rule["additional"].append(r2)
                    if not rule["additional"]:
                        del rule["additional"]
                meth["http"] = rule
            if self.coin("p_sig") and not meth.get("cs"):
                sigs = []
                used_leaves = {}
                for _ in range(self.d(st.integers(1, 3))):
                    s = self.signature(req, fileidx, used_leaves)
                    if s and s not in sigs:
                        sigs.append(s)
                if sigs:
                    meth["signatures"] = sigs
            if self.coin("p_routing"):
                paths = [p for p, f in self.string_paths(req, fileidx) if self.p.get("routing_reserved_ok") or not _has_reserved(p)]
                if paths:
                    rps = []
                    # 0 parameters: the empty annotation (AIP-4222: allowed, turns the implicit headers off)
                    for _ in range(self.d(st.sampled_from([0, 1, 1, 1, 2, 2, 3, 3]))):
                        fld = self.d(st.sampled_from(paths))
                        t = self.d(st.sampled_from([None, "{%s=**}", "{%s=*}", "{%s=projects/*}/**", "projects/*/{%s=zones/*}/**", "{%s=projects/*/zones/*}"]))
                        keyn = self.d(st.sampled_from(["routing_id", "table_name", fld.replace(".", "_")]))
                        rp = {"field": fld}
                        if t:
                            rp["template"] = t % keyn
                        rps.append(rp)
                    meth["routing"] = rps
        if req is None and self.coin("p_sig") and not meth.get("cs"):
            dep_sigs = {".google.iam.v1.GetIamPolicyRequest": ["resource", "resource,options.requested_policy_version"],
                        ".google.iam.v1.SetIamPolicyRequest": ["resource"],
                        ".google.iam.v1.TestIamPermissionsRequest": ["resource,permissions"],
                        ".google.longrunning.GetOperationRequest": ["name"],
                        ".google.longrunning.ListOperationsRequest": ["name,filter"],
                        ".google.cloud.location.GetLocationRequest": ["name"]}
            if meth["input"] in dep_sigs:
                meth["signatures"] = list(dep_sigs[meth["input"]])
        if self.coin("p_deprecated"):
            meth["deprecated"] = True
        c = self.comment()
        if c:
            meth["comment"] = c
        return meth

    # -- pagination shapes (AIP-4233 ingredients, present / absent / mistyped) ----
    def paged_request_fields(self):
        v = self.p.get("paged_variants", False)
        pick = lambda opts: self.d(st.sampled_from(opts))
        tok = pick(["string"] * 8 + (["int32", "rep-string", None] if v else []))
        size = pick(["int32"] * 5 + ["int64", "uint32"] + (["string", None, None] if v else []))
        maxr = pick([None] * 8 + (["int32", "uint32", "Int32Value", "UInt32Value", "string"] if v else []))
        out, num = [], 101
        if size:
            out.append({"name": "page_size", "number": num, "type": size}); num += 1
        if tok:
            f = {"name": "page_token", "number": num, "type": "string" if tok == "rep-string" else tok}
            if tok == "rep-string":
                f["repeated"] = True
            out.append(f); num += 1
        if maxr:
            if maxr.endswith("Value"):
                out.append({"name": "max_results", "number": num, "type": "message", "type_name": ".google.protobuf." + maxr})
            else:
                out.append({"name": "max_results", "number": num, "type": maxr})
        return out

    def paged_response_fields(self, fileidx):
        v = self.p.get("paged_variants", False)
        nrep = self.d(st.sampled_from([1, 1, 1, 2, 3] + ([0] if v else [])))
        fields, num = [], 1
        def rep():
            nonlocal num
            kind = self.d(st.sampled_from((["message", "message"] if self.p.get("repeated_messages", True) else []) + ["string", "int32", "enum", "bytes"]
                                          + ([] if self.p.get("p_map", 1) == 0 else ["map"])))
            f = {"name": ["items", "extras", "more"][len([x for x in fields if x.get("repeated") or x["type"] == "map"]) % 3], "number": num}
            if kind == "map":
                f.update({"type": "map", "map_key": self.d(st.sampled_from(["string", "int32"])),
                          "map_value": self.d(st.sampled_from([{"type": "string"}, {"type": "int64"}, {"type": "message", "type_name": self.type_ref(fileidx, "message")}]))})
            else:
                f.update({"type": kind, "repeated": True})
                if kind in ("message", "enum"):
                    f["type_name"] = self.type_ref(fileidx, kind)
            num += 1
            return f
        singles = [{"name": "total_size", "type": "int32"}, {"name": "unreachable_note", "type": "string"}]
        for i in range(nrep):
            if singles and self.d(st.booleans()):
                sf = dict(singles.pop(0), number=num); num += 1
                fields.append(sf)
            fields.append(rep())
        nt = self.d(st.sampled_from(["string"] * 8 + (["int32", None] if v else [])))
        if nt:
            pos = self.d(st.integers(0, len(fields))) if v else len(fields)
            fields.insert(pos, {"name": "next_page_token", "number": num, "type": nt}); num += 1
        for sf in singles:
            if self.d(st.booleans()):
                fields.append(dict(sf, number=num)); num += 1
        if v and len(fields) >= 2 and self.d(st.integers(0, 2)) == 0:
            # field numbers out of declaration order ("first repeated field" is read as first declared)
            nums = self.d(st.permutations([f["number"] for f in fields]))
            for f, n in zip(fields, nums):
                f["number"] = n
        return fields

    # -- Compute-style extended operations (google.cloud.extended_operations) ----
    def add_extended_operations(self, file, pkg, host):
        names = self.ns(pkg)
        P = f".{pkg}."
        op = names.fresh("Operation")        # the generator recognises extended operations by this message name
        file["messages"].append({"name": op, "oneofs": [], "nested": [], "enums": [
            {"name": "Status", "values": [["UNDEFINED_STATUS", 0], ["DONE", 2104194], ["PENDING", 35394935], ["RUNNING", 121282975]]}],
            "fields": [{"name": "name", "number": 1, "type": "string", "optional": True, "op_field": "NAME", "op_response_field": "name"},
                       {"name": "http_error_message", "number": 2, "type": "string", "optional": True, "op_field": "ERROR_MESSAGE"},
                       {"name": "http_error_status_code", "number": 3, "type": "int32", "optional": True, "op_field": "ERROR_CODE"},
                       {"name": "status", "number": 4, "type": "enum", "type_name": f"{P}{op}.Status", "optional": True, "op_field": "STATUS"}]})
        scopes = self.d(st.lists(st.sampled_from(["Zone", "Region", "Global", "Org"]), min_size=1, max_size=4, unique=True))
        op_services = []
        for sc in scopes:
            req = names.fresh(f"Get{sc}OpRequest")
            file["messages"].append({"name": req, "oneofs": [], "nested": [], "enums": [], "fields": [
                {"name": "operation", "number": 1, "type": "string", "required": True, "op_response_field": "name"},
                {"name": "project", "number": 2, "type": "string", "required": True}]})
            sname = names.fresh(f"{sc}Operations")
            file["services"].append({"name": sname, "host": host, "methods": [
                {"name": "Get", "input": P + req, "output": P + op, "op_polling": True,
                 "http": {"verb": "get", "uri": "/ext/v1/projects/{project}/" + sc.lower() + "Operations/{operation}"}, "signatures": ["project,operation"]}]})
            op_services.append(sname)
        main = names.fresh("Addresses")
        methods = []
        for i, sname in enumerate(op_services):
            req = names.fresh(f"Insert{i}AddressRequest")
            file["messages"].append({"name": req, "oneofs": [], "nested": [], "enums": [], "fields": [
                {"name": "project", "number": 1, "type": "string", "required": True, "op_request_field": "project"},
                {"name": "payload", "number": 2, "type": "string"}]})
            methods.append({"name": f"Insert{i}", "input": P + req, "output": P + op, "op_service": sname,
                            "http": {"verb": "post", "uri": "/ext/v1/projects/{project}/addresses" + str(i), "body": "*"}, "signatures": ["project"]})
        file["services"].append({"name": main, "host": host, "methods": methods})

    # -- whole API ---------------------------------------------------------
    def api(self):
        root = self.package()
        self.root = root
        nfiles = self.d(st.integers(1, self.p["max_files"]))
        host = self.d(st.sampled_from(["lib.acme.com", "lib.acme.com", "storage.googleapis.com", "my-api.example.org"]))
        api = {"files": []}
        self.api_files = api["files"]
        fnames = Names()
        dep_file = None
        if self.p.get("dep_only_file") and _p(self.draw, 0.6 if self.p["dep_only_file"] is True else self.p["dep_only_file"]):
            dpkg = self.d(st.sampled_from(["other.dep.v1", "acme.shared", "zeta.common.v2"] + ([root + "extra"] if self.p.get("prefix_dep_pkg") else [])))
            self.cur_pkg = dpkg
            dnames = self.ns(dpkg)
            dep_file = {"name": dpkg.replace(".", "/") + "/" + self.d(st.sampled_from(["shared", "dep_types", "common"])) + ".proto",
                        "package": dpkg, "messages": [], "enums": [], "services": []}
            for _ in range(self.d(st.integers(1, 3))):
                dep_file["messages"].append(self.skeleton(dpkg, dnames, 2, -1, base=self.d(st.sampled_from(["Shared", "DepThing", "Common", "Money2"]))))
            e = self.enum(dnames, base="DepKind")
            dep_file["enums"].append(e)
            self.pool.append({"full": f".{dpkg}.{e['name']}", "kind": "enum", "file": -1, "msg": None, "pkg": dpkg})
            for m in dep_file["messages"]:
                self.fill(m, f"{dpkg}.{m['name']}", -1)
            if self.d(st.booleans()):
                dep_file["services"].append({"name": "DepService", "host": "dep.example.com", "methods": [
                    {"name": "DepCall", "input": f".{dpkg}.{dep_file['messages'][0]['name']}", "output": f".{dpkg}.{dep_file['messages'][0]['name']}"}]})
        svc_names = None
        forced = {}
        if self.p.get("odd_file_names") and nfiles >= 2 and _p(self.draw, 0.2):
            # two files of one directory whose names become equal once sanitised; either order
            pair = self.d(st.sampled_from([("book_types", "book.types"), ("book.types", "book_types"), ("book_types", "book-types"),
                                           ("a.b", "a_b"), ("x-y", "x.y")]))
            forced = {nfiles - 2: pair[0], nfiles - 1: pair[1]}
            for b in pair:                      # no other file of the request may take one of the two names
                fnames.used.add(b.lower())
        for fi in range(nfiles):
            # unversioned packages with sub-packages are a documented input error of the generator
            sub = fi < nfiles - 1 and self.versioned and self.coin("p_subpackage") and fi not in forced   # the last file stays in the root package
            pkg = root + (".sub" + ("" if self.d(st.booleans()) else "two") if sub else "")
            if fi in forced:
                base = forced[fi]
                fnames.used.add(base.lower())
            elif self.p.get("odd_file_names") and _p(self.draw, 0.5):
                # includes names that become equal once sanitised (book_types / book.types / book-types)
                base = fnames.fresh(self.d(st.sampled_from(["foo.bar", "my-file", "File2", "MyTypes", "class", "metadata", "import",
                                                            "retry", "request", "timeout", "a1_b2", "x.y.z", "lib_v1", "types_",
                                                            "book_types", "book.types", "book-types", "book_types", "book.types"])))
            else:
                # now and then a proto file named like a module the emitted client imports (module-name collisions)
                pool = ["lib", "types", "resources", "service", "common", "admin"]
                if _p(self.draw, self.p.get("p_colliding_file_name", 0.08)):
                    pool = ["operation", "operation_async", "status", "empty", "timestamp", "field_mask", "operations", "policy"]
                base = fnames.fresh(self.d(st.sampled_from(pool)))
            file = {"name": pkg.replace(".", "/") + f"/{base}.proto", "package": pkg, "messages": [], "enums": [], "services": []}
            names = self.ns(pkg)
            self.cur_pkg = pkg
            # phase 1: skeletons
            for _ in range(self.d(st.integers(0 if fi < nfiles - 1 else 1, self.p["max_messages"]))):
                file["messages"].append(self.skeleton(pkg, names, 1, fi))
            for _ in range(self.d(st.integers(0, 2))):
                e = self.enum(names)
                file["enums"].append(e)
                self.pool.append({"full": f".{pkg}.{e['name']}", "kind": "enum", "file": fi, "msg": None, "pkg": pkg})
            # phase 2: fields
            for m in file["messages"]:
                self.fill(m, f"{pkg}.{m['name']}", fi)
            for m in list(file["messages"]):
                if self.coin("p_resource"):
                    self.make_resource(m, f"{pkg}.{m['name']}", host)
            # services
            svc_ok = (not sub) or self.p["services_in_subpackages"]
            if not svc_ok and _p(self.draw, 0.3):
                self.excluded.append("F-subpackage-services")     # known finding: steer away, counted
            want_svc = svc_ok and (fi == nfiles - 1 and not any(f["services"] for f in api["files"]) or (svc_ok and self.d(st.booleans())))
            if want_svc:
                for _ in range(self.d(st.integers(1, self.p["max_services"]))):
                    sname = names.fresh(self.d(st.sampled_from(SERVICE_WORDS)))
                    if self.p["services_in_subpackages"]:
                        # service names unique API-wide (same-named services of two sub-packages: finding F-subpackage-services)
                        self._svc_names = getattr(self, "_svc_names", None) or Names()
                        while sname.lower() in self._svc_names.used:
                            sname = names.fresh(sname)
                        self._svc_names.used.add(sname.lower())
                    shost = host
                    if self.p.get("p_host_per_service") and self.coin("p_host_per_service"):
                        # services of one API on different hosts (region tags, default endpoints and scopes are per service)
                        shost = self.d(st.sampled_from(["archive.acme.com", "lib.acme.com", "storage.googleapis.com", "other-api.example.org"]))
                    svc = {"name": sname, "host": shost, "methods": []}
                    if self.d(st.booleans()):
                        svc["scopes"] = ["https://www.googleapis.com/auth/cloud-platform"] + (["https://www.googleapis.com/auth/other"] if self.d(st.booleans()) else [])
                    mnames = Names()
                    if self.p.get("dup_rpc_names") and self.d(st.booleans()):
                        mnames = self._shared_mnames = getattr(self, "_shared_mnames", None) or Names()
                        mnames = Names() if self.d(st.booleans()) else mnames
                    for _ in range(self.d(st.integers(1, self.p["max_methods"]))):
                        svc["methods"].append(self.method(file, pkg, names, fi, mnames, shost))
                    c = self.comment()
                    if c:
                        svc["comment"] = c
                    file["services"].append(svc)
            api["files"].append(file)
        if self.p.get("file_level_resources"):
            # file-level resource definitions, referenced from request fields
            f0 = api["files"][-1]
            defs = []
            for i in range(self.d(st.integers(0, 2))):
                t = "lib.acme.com/" + ["Warehouse", "Depot"][i]
                # the same type name carries different patterns from one generated API to the next (a generator process
                # sees many requests: nothing about a type may be remembered between them)
                pat = self.d(st.sampled_from([[f"warehouses/{{warehouse}}", f"regions/{{region}}/warehouses/{{warehouse}}", f"projects/{{project}}/warehouses/{{warehouse}}"],
                                              [f"projects/{{project}}/depots/{{depot=**}}", f"depots/{{depot}}", f"shelves/{{shelf}}/depots/{{depot}}"]][i]))
                defs.append({"type": t, "patterns": [pat]})
                self.resources.append({"type": t, "patterns": [pat], "msg_full": None})
            if defs:
                f0["resource_definitions"] = defs
                # every definition is referenced from a request message (that is what makes it visible to a service)
                inputs = {m["input"] for _f, _s, m in M.all_methods(api)}
                reqs = [m for f in api["files"] for full, m, _ in M.walk_messages(f) if "." + full in inputs]
                for dfn in defs:
                    if reqs:
                        tgt = self.d(st.sampled_from(reqs))
                        nm = dfn["type"].rsplit("/", 1)[-1].lower() + "_name"
                        if all(x["name"] != nm for x in tgt["fields"]):
                            tgt["fields"].append({"name": nm, "number": _free_number(tgt["fields"]), "type": "string", "ref": {"type": dfn["type"]}})
        # resource references on string fields (after all resources are known)
        if self.resources:
            for f in api["files"]:
                for full, m, _ in M.walk_messages(f):
                    for fld in m["fields"]:
                        if fld["type"] == "string" and not fld.get("repeated") and fld["name"] in ("name", "parent", "book", "shelf", "owner") \
                                and "ref" not in fld and _p(self.draw, 0.4):
                            r = self.d(st.sampled_from(self.resources))
                            # a message's own name field does not reference itself
                            if r["msg_full"] != "." + full:
                                fld["ref"] = {"type": r["type"]} if self.d(st.booleans()) else {"child_type": r["type"]}
        if self.p.get("extended_operations") and _p(self.draw, self.p["extended_operations"]):
            self.add_extended_operations(api["files"][-1], root, host)
        if dep_file is not None:
            api["file_to_generate"] = [f["name"] for f in api["files"]]
            api["files"].insert(0, dep_file)
        if self.excluded:
            api["_excluded"] = sorted(set(self.excluded))
        return api


def T_variables(uri):
    import re
    return [m.group(1) for m in re.finditer(r"\{([A-Za-z0-9_.]+)(?:=[^}]*)?\}", uri)]


def _free_number(fields):
    taken = {f["number"] for f in fields}
    n = 1
    while n in taken:
        n += 1
    return n


def _has_reserved(path):
    return any(seg in RESERVED for seg in path.split("."))


@st.composite
def apis(draw, prof=None):
    b = Builder(draw, prof or BASE_PROFILE)
    return b.api()


# ---------------------------------------------------------------------------
# options

@st.composite
def option_sets(draw, transports=("grpc", "rest", "grpc+rest"), allow_ads=False, snippets=None, metadata=None):
    o = {"params": []}
    t = draw(st.sampled_from(list(transports)))
    o["transport"] = t
    if t != "grpc" or draw(st.booleans()):      # grpc is also the default when the option is absent
        o["params"].append(f"transport={t}")
    if draw(st.booleans()):
        o["params"].append("rest-numeric-enums")
        o["numeric_enums"] = True
    sn = draw(st.booleans()) if snippets is None else snippets
    if not sn:
        o["params"].append("autogen-snippets=False")
    o["snippets"] = sn
    md = draw(st.booleans()) if metadata is None else metadata
    if md:
        o["params"].append("metadata")
    o["metadata"] = md
    return o


CODES = ["OK", "CANCELLED", "UNKNOWN", "INVALID_ARGUMENT", "DEADLINE_EXCEEDED", "NOT_FOUND", "ALREADY_EXISTS",
         "PERMISSION_DENIED", "RESOURCE_EXHAUSTED", "FAILED_PRECONDITION", "ABORTED", "OUT_OF_RANGE", "UNIMPLEMENTED",
         "INTERNAL", "UNAVAILABLE", "DATA_LOSS", "UNAUTHENTICATED"]


@st.composite
def retry_configs(draw, api, max_entries=4, fractional=True):
    """A gRPC service config naming methods of the API (DESIGN C09 domain)."""
    methods = [(f["package"], s["name"], m["name"]) for f, s, m in M.all_methods(api)]
    if not methods:
        return {"methodConfig": []}
    entries = []
    taken = set()
    for _ in range(draw(st.integers(0, max_entries))):
        k = draw(st.integers(1, min(3, len(methods))))
        idx = draw(st.lists(st.integers(0, len(methods) - 1), min_size=k, max_size=k, unique=True))
        names = []
        for i in idx:
            if i in taken:
                continue          # a method is named by at most one entry
            taken.add(i)
            pkg, svc, meth = methods[i]
            names.append({"service": f"{pkg}.{svc}", "method": meth})
        if not names:
            continue
        e = {"name": names}
        dur = st.sampled_from(["30s", "60s", "5s", "600s"] + (["0.5s", "1.250s", "2.5s", "0.100s"] if fractional else []))
        if draw(st.integers(0, 4)) > 0:
            e["timeout"] = draw(dur)
        if draw(st.integers(0, 3)) > 0:
            n = draw(st.integers(1, 4))
            codes = draw(st.lists(st.sampled_from(CODES[1:]), min_size=n, max_size=n, unique=True))
            e["retryPolicy"] = {"maxAttempts": draw(st.integers(2, 6)),
                                "initialBackoff": draw(st.sampled_from(["0.1s", "1s", "0.25s", "0.5s"])),
                                "maxBackoff": draw(st.sampled_from(["60s", "1.5s", "10s", "3s"])),
                                "backoffMultiplier": draw(st.sampled_from([1.3, 2, 1.5, 1.0])),
                                "retryableStatusCodes": codes}
        entries.append(e)
    return {"methodConfig": entries}
