"""Sharded Hypothesis runner, replay tier, findings handling and evidence writer.

A property module (props/cNN.py) provides

    ID, LEVEL, RULE, ASSUMPTIONS
    strategy(tier)            -> Hypothesis strategy of JSON-able cases
    run_case(case, rec)       -> executes the case against the tree under test;
                                 raises Violation on a property violation;
                                 records classes / non-trivial signatures / samples on rec
    budget(tier)              -> {"shards": n, "examples": per-shard max_examples, "wall": seconds}
  optional
    enumerate_cases(tier, seed) -> list of cases run exhaustively through run_case
    extra_stage(tier, seed, rec) -> anything else (e.g. an atheris campaign); may raise Violation
    EXHAUSTIVE(tier)          -> bool for coverage.exhaustive

Exit protocol (run.py): 0 held / 1 VIOLATION lines / 2 harness error.
"""
import hashlib, importlib, json, os, sys, time, traceback
from concurrent.futures import ProcessPoolExecutor
import multiprocessing

from . import common, findings


class Violation(Exception):
    """A property violation. `kind` is a short stable label used for the finding
    signature; `msg` is human text; `detail` is JSON-able context."""

    def __init__(self, kind, msg, detail=None):
        super().__init__(f"{kind}: {msg}")
        self.kind, self.msg, self.detail = kind, msg, detail

    def to_json(self):
        return {"kind": self.kind, "msg": self.msg[:4000], "detail": self.detail}


class HarnessError(Exception):
    pass


class Recorder:
    def __init__(self):
        self.evaluations = 0
        self.classes = {}
        self.signatures = set()
        self.samples = []
        self.counters = {}
        self.known = {}
        self.excluded = {}

    def cls(self, label, n=1):
        self.classes[label] = self.classes.get(label, 0) + n

    def count(self, key, n=1):
        self.counters[key] = self.counters.get(key, 0) + n

    def nontrivial(self, signature):
        if not isinstance(signature, str):
            signature = json.dumps(signature, sort_keys=True, default=str)
        self.signatures.add(hashlib.sha1(signature.encode()).hexdigest()[:16])

    def sample(self, obj, cap=6):
        if len(self.samples) < cap:
            self.samples.append(obj)

    def exclude(self, finding_id, n=1):
        self.excluded[finding_id] = self.excluded.get(finding_id, 0) + n

    def dump(self):
        return {"evaluations": self.evaluations, "classes": self.classes,
                "signatures": sorted(self.signatures), "samples": self.samples,
                "counters": self.counters, "known": self.known, "excluded": self.excluded}

    def merge(self, d):
        self.evaluations += d["evaluations"]
        for k, v in d["classes"].items():
            self.cls(k, v)
        for k, v in d["counters"].items():
            self.count(k, v)
        for k, v in d["known"].items():
            self.known[k] = self.known.get(k, 0) + v
        for k, v in d["excluded"].items():
            self.exclude(k, v)
        self.signatures.update(d["signatures"])
        for s in d["samples"]:
            self.sample(s, cap=8)


def load_prop(pid):
    return importlib.import_module(f"props.{pid.lower()}")


def case_key(case):
    return hashlib.sha1(json.dumps(case, sort_keys=True, default=str).encode()).hexdigest()


def _size(case):
    return len(json.dumps(case, default=str))


# ---------------------------------------------------------------------------
# one shard (runs in a worker process)

def _shard(pid, tier, seed, shard, nshards, examples, wall, cases=None):
    t0 = time.time()
    os.environ["PYTHONHASHSEED"] = os.environ.get("PYTHONHASHSEED", "0")
    prop = load_prop(pid)
    rec = Recorder()
    known = findings.load()
    out = {"shard": shard, "failures": [], "budget_hit": False, "harness_errors": []}
    failing = {}          # case_key -> (case, violation json)

    def evaluate(case):
        """-> None or violation json; known findings are counted, not reported."""
        k = case_key(case)
        if k in failing:
            return failing[k][1]
        rec.evaluations += 1
        try:
            prop.run_case(case, rec)
        except Violation as v:
            vj = v.to_json()
            fid = findings.match(known, pid, vj, case)
            if fid:
                rec.known[fid] = rec.known.get(fid, 0) + 1
                return None
            failing[k] = (case, vj)
            return vj
        return None

    if cases is not None:       # exhaustive / replay shard
        for c in cases:
            try:
                vj = evaluate(c)
            except HarnessError as e:
                out["harness_errors"].append(str(e)[:2000])
                continue
            if vj:
                out["failures"].append({"case": c, "violation": vj})
        out["rec"] = rec.dump()
        out["wall"] = time.time() - t0
        return out

    import hypothesis
    from hypothesis import given, settings, HealthCheck, Phase
    deadline = t0 + wall
    shrink_deadline = [None]
    state = {"skipped": 0}

    phases = [Phase.explicit, Phase.generate]
    if getattr(prop, "SHRINK", {}).get(tier, tier != "quick"):
        phases.append(Phase.shrink)

    @hypothesis.seed(seed * 1000 + shard)
    @settings(max_examples=examples, database=None, deadline=None, derandomize=False,
              report_multiple_bugs=False, phases=phases,
              suppress_health_check=list(HealthCheck))
    @given(prop.strategy(tier))
    def test(case):
        k = case_key(case)
        now = time.time()
        if k not in failing:
            if shrink_deadline[0] is None and now > deadline:
                state["skipped"] += 1
                out["budget_hit"] = True
                return
            if shrink_deadline[0] is not None and now > shrink_deadline[0]:
                return      # shrink budget used up: unknown cases count as passing
        vj = evaluate(case)
        if vj:
            if shrink_deadline[0] is None:
                shrink_deadline[0] = time.time() + (90 if tier == "quick" else 600)
            raise AssertionError(vj["kind"] + ": " + vj["msg"][:300])

    try:
        test()
    except HarnessError as e:
        out["harness_errors"].append(str(e)[:4000])
    except AssertionError:
        pass
    except BaseException as e:       # Hypothesis internal error, Flaky, ...
        if failing:
            pass
        else:
            out["harness_errors"].append("".join(traceback.format_exception(e))[-4000:])
    if failing:
        # smallest failing example per violation kind
        best = {}
        for c, vj in failing.values():
            cur = best.get(vj["kind"])
            if cur is None or _size(c) < _size(cur["case"]):
                best[vj["kind"]] = {"case": c, "violation": vj}
        out["failures"] = list(best.values())
    out["skipped_after_budget"] = state["skipped"]
    out["rec"] = rec.dump()
    out["wall"] = time.time() - t0
    return out


# ---------------------------------------------------------------------------

def _write_replay(pid, seed, idx, failure):
    d = os.path.join(common.VERIF, "replays", pid, "found")
    os.makedirs(d, exist_ok=True)
    p = os.path.join(d, f"seed{seed}-{idx}-{failure['violation']['kind'][:40].replace('/', '_').replace(' ', '_')}.json")
    with open(p, "w") as fh:
        json.dump({"property": pid, "case": failure["case"], "violation": failure["violation"]}, fh, indent=1, default=str)
    return p


def run_property(pid, tier, seed=None):
    seed = common.SEED if seed is None else seed
    t0 = time.time()
    os.environ["VERIF_TIER_ACTIVE"] = tier      # inherited by the shard processes
    prop = load_prop(pid)
    b = prop.budget(tier)
    nshards = int(os.environ.get("VERIF_SHARDS", b.get("shards", 16)))
    rec = Recorder()
    failures, harness_errors, lines = [], [], []
    budget_hit = False
    known = findings.load()

    ctx = multiprocessing.get_context("spawn")
    with ProcessPoolExecutor(max_workers=min(16, max(1, nshards)), mp_context=ctx) as pool:
        futs = []
        # 1. replay tier: committed seeds and finding reproductions
        seeds, finding_cases = findings.replay_cases(pid)
        if seeds:
            futs.append(("replay", pool.submit(_shard, pid, tier, seed, -1, 1, 0, 0, [c for _, c in seeds])))
        # 2. exhaustive enumerations
        if hasattr(prop, "enumerate_cases"):
            cases = prop.enumerate_cases(tier, seed)
            n = max(1, min(16, len(cases)))
            for i in range(n):
                futs.append(("enum", pool.submit(_shard, pid, tier, seed, 100 + i, n, 0, 0, cases[i::n])))
        # 3. generated search
        if b.get("examples", 0) > 0:
            for s in range(nshards):
                futs.append(("gen", pool.submit(_shard, pid, tier, seed, s, nshards, b["examples"], b.get("wall", 240))))
        # known-finding reproductions run in the parent-side pool as plain cases but
        # WITHOUT finding matching, to see whether they still fail
        kf_futs = []
        for fid, c in finding_cases:
            kf_futs.append((fid, c, pool.submit(_reproduce, pid, c)))
        for kind, f in futs:
            r = f.result()
            rec.merge(r["rec"])
            failures.extend(r["failures"])
            harness_errors.extend(r["harness_errors"])
            budget_hit = budget_hit or r.get("budget_hit", False)
            if r.get("skipped_after_budget"):
                rec.count("skipped_after_budget", r["skipped_after_budget"])
        reproduced = {}
        for fid, c, f in kf_futs:
            vj = f.result()
            entry = known["open"].get(fid)
            if vj and entry and findings.signature_matches(entry, vj):
                reproduced[fid] = reproduced.get(fid, 0) + 1
            elif vj and not vj.get("harness_error"):
                # fails, but differently from the recorded signature -> a different violation
                failures.append({"case": c, "violation": vj})
        for fid in sorted(reproduced):
            lines.append(f"KNOWN-FINDING: property={pid} {fid}: {known['open'][fid]['what']}")

    if hasattr(prop, "extra_stage"):
        try:
            prop.extra_stage(tier, seed, rec)
        except Violation as v:
            failures.append({"case": v.detail, "violation": v.to_json()})

    # de-duplicate failures by kind, keep the smallest
    best = {}
    for f in failures:
        k = f["violation"]["kind"]
        if k not in best or _size(f["case"]) < _size(best[k]["case"]):
            best[k] = f
    vio_lines = []
    for i, f in enumerate(best.values()):
        p = _write_replay(pid, seed, i, f)
        vio_lines.append(f"VIOLATION property={pid} replay={p}")
        lines.append(f"  {f['violation']['kind']}: {f['violation']['msg'][:600]}")

    wall = time.time() - t0
    ev = {
        "property_id": pid, "tier": tier, "seed": seed, "level": prop.LEVEL,
        "coverage": {
            "evaluations": rec.evaluations,
            "distinct_nontrivial": len(rec.signatures),
            "rule": prop.RULE,
            "samples": rec.samples[:8],
            "classes": dict(sorted(rec.classes.items())),
            "counters": rec.counters,
            "excluded_by_construction": rec.excluded,
            "known_findings_reproduced": sorted(reproduced),
            "known_finding_hits_in_search": rec.known,
            "budget_hit": budget_hit,
            "shards": nshards,
            "harness_errors": len(harness_errors),
        },
        "assumptions": list(getattr(prop, "ASSUMPTIONS", [])),
        "wall_s": round(wall, 2),
        "violations": len(best),
    }
    if hasattr(prop, "EXHAUSTIVE") and prop.EXHAUSTIVE(tier):
        ev["coverage"]["exhaustive"] = True
    if hasattr(prop, "evidence_extra"):
        ev["coverage"].update(prop.evidence_extra(rec, tier))
    os.makedirs(os.path.join(common.VERIF, "evidence"), exist_ok=True)
    with open(os.path.join(common.VERIF, "evidence", f"{pid}.json"), "w") as fh:
        json.dump(ev, fh, indent=1, default=str)

    for l in lines:
        print(l)
    print(f"{pid} {tier} seed={seed}: evaluations={rec.evaluations} distinct_nontrivial={len(rec.signatures)} "
          f"violations={len(best)} known={sorted(reproduced)} harness_errors={len(harness_errors)} wall={wall:.1f}s"
          + (" budget_hit" if budget_hit else ""))
    for l in vio_lines:
        print(l)
    if best:
        return 1
    if harness_errors:
        sys.stderr.write("HARNESS ERRORS:\n" + "\n---\n".join(harness_errors[:5]) + "\n")
        # harness errors never produce a VIOLATION line
        if rec.evaluations == 0 or len(harness_errors) > max(3, rec.evaluations // 20):
            return 2
    return 0


def _reproduce(pid, case):
    """Run one case with no finding matching; -> violation json or None."""
    prop = load_prop(pid)
    rec = Recorder()
    try:
        prop.run_case(case, rec)
    except Violation as v:
        return v.to_json()
    except HarnessError as e:
        return {"harness_error": str(e)}
    return None


def replay_file(pid, path):
    with open(path) as fh:
        d = json.load(fh)
    case = d["case"] if "case" in d else d
    vj = _reproduce(pid, case)
    if vj and vj.get("harness_error"):
        sys.stderr.write(vj["harness_error"] + "\n")
        return 2
    if vj:
        print(f"  {vj['kind']}: {vj['msg'][:2000]}")
        print(f"VIOLATION property={pid} replay={path}")
        return 1
    print(f"{pid}: replay {path} passed")
    return 0
