"""Process-wide set-up shared by every harness process that touches `gapic`.

* selects the tree under test ($VERIF_REPO, default /repo) and asserts that the
  `gapic` that got imported really is that tree;
* replaces pypandoc.convert_text by an identity stub (no pandoc binary in the
  sandbox; DESIGN 3.2);
* scratch directory helpers (never under /repo or /verif).
"""
import os, sys, tempfile, shutil, contextlib

VERIF = os.path.dirname(os.path.dirname(os.path.abspath(__file__)))
REPO = os.path.abspath(os.environ.get("VERIF_REPO", "/repo"))
PY = os.environ.get("VERIF_PYTHON", "/venv/bin/python")
SEED = int(os.environ.get("VERIF_SEED", "1") or "1")

_ready = False


def setup_gapic():
    global _ready
    if _ready:
        return
    if REPO not in sys.path:
        sys.path.insert(0, REPO)
    import pypandoc

    def _identity(text, to=None, format=None, extra_args=(), **kw):
        return text

    pypandoc.convert_text = _identity
    import gapic.schema.api as _api

    got = os.path.abspath(_api.__file__)
    if not got.startswith(REPO + os.sep):
        raise RuntimeError(f"harness error: gapic imported from {got}, expected {REPO}")
    _ready = True


def scratch_root():
    for cand in ("/dev/shm", os.environ.get("TMPDIR") or "/tmp"):
        if os.path.isdir(cand) and os.access(cand, os.W_OK):
            return cand
    return tempfile.gettempdir()


@contextlib.contextmanager
def scratch(prefix="vf"):
    d = tempfile.mkdtemp(prefix=prefix, dir=scratch_root())
    try:
        yield d
    finally:
        shutil.rmtree(d, ignore_errors=True)


def child_env(extra=None, hashseed="0"):
    env = dict(os.environ)
    env["PYTHONHASHSEED"] = hashseed
    env["PYTHONDONTWRITEBYTECODE"] = "1"
    env.pop("PYTHONPATH", None)
    if extra:
        env.update(extra)
    return env
