"""Input-shape predicates referenced by known_findings.json entries (evaluated on the failing case,
so that a *different* input failing the same way is still reported as a violation)."""
from . import model as M


def _api(case):
    return case.get("api") or {}


def no_namespace(case):
    api = _api(case)
    import os
    root = os.path.commonprefix([f["package"] for f in api.get("files", [])]).rstrip(".")
    parts = root.split(".")
    import re
    parts = [p for p in parts if not re.match(r"^v[0-9]+(p[0-9]+)?((alpha|beta)[0-9]*)?$", p)]
    return len(parts) <= 1


def sub_refs_root(case):
    api = _api(case)
    import os
    root = os.path.commonprefix([f["package"] for f in api.get("files", [])]).rstrip(".")
    for f in api.get("files", []):
        if f["package"] == root:
            continue
        for _, m, _p in M.walk_messages(f):
            for fld in m["fields"]:
                tn = fld.get("type_name") or (fld.get("map_value") or {}).get("type_name")
                if tn and tn.startswith("." + root + ".") and not tn.startswith("." + f["package"] + "."):
                    return True
    return False


def map_first_field_recursive(case):
    api = _api(case)
    for f in api.get("files", []):
        for _, m, _p in M.walk_messages(f):
            if m["fields"] and m["fields"][0]["type"] == "map" and m["fields"][0]["map_value"]["type"] == "message":
                return True
    return False


def streaming_void(case):
    for _f, _s, m in M.all_methods(_api(case)):
        if m.get("ss") and m["output"] == ".google.protobuf.Empty":
            return True
    return False


def client_streaming_void(case):
    for _f, _s, m in M.all_methods(_api(case)):
        if m.get("cs") and not m.get("ss") and m["output"] == ".google.protobuf.Empty":
            return True
    return False


def request_in_other_subpackage(case):
    api = _api(case)
    pkgs = {f["package"] for f in api.get("files", [])}
    for f, _s, m in M.all_methods(api):
        ipkg = m["input"].rsplit(".", 1)[0].lstrip(".")
        if ipkg != f["package"] and ipkg in pkgs:
            return True
    return False


def prefix_dep_package(case):
    api = _api(case)
    targets = api.get("file_to_generate")
    if not targets:
        return False
    import os
    root = os.path.commonprefix([f["package"] for f in api["files"] if f["name"] in targets]).rstrip(".")
    return any(f["name"] not in targets and f["package"].startswith(root) and not f["package"].startswith(root + ".") and f["package"] != root
               for f in api["files"])


def has_additional_bindings(case):
    return any((m.get("http") or {}).get("additional") for _f, _s, m in M.all_methods(_api(case)))


def has_client_streaming_unary(case):
    return any(m.get("cs") and not m.get("ss") for _f, _s, m in M.all_methods(_api(case)))


def uses_protobuf_value(case):
    import json as _json
    return ".google.protobuf.Value" in _json.dumps(_api(case))


def sample_type_outside_root_module(case):
    api = _api(case)
    return uses_protobuf_value(case) or len({f["package"] for f in api.get("files", [])}) > 1


def service_in_subpackage(case):
    api = _api(case)
    import os
    root = os.path.commonprefix([f["package"] for f in api.get("files", [])]).rstrip(".")
    return any(f["package"] != root and f.get("services") for f in api.get("files", []))


def dep_keyword_path(case):
    """C12 table case: a path through a non proto-plus dependency message whose field is a Python keyword."""
    import keyword
    return str(case.get("position", "")).startswith("dep-") and keyword.iskeyword(case.get("word", ""))


def dep_reserved_flattened(case):
    """a method_signature path whose leaf is a reserved-word field of a message defined in a dependency-only file"""
    from .strategies import RESERVED
    api = _api(case)
    targets = api.get("file_to_generate")
    if not targets:
        return False
    dep_msgs = {}
    for f in api["files"]:
        if f["name"] not in targets:
            for full, m, _p in M.walk_messages(f):
                dep_msgs[full] = m
    for _f, _s, m in M.all_methods(api):
        for sig in m.get("signatures", []):
            for path in [p for p in sig.split(",") if "." in p]:
                cur = M.find_message(api, m["input"])
                segs = path.split(".")
                for i, seg in enumerate(segs):
                    fld = next((x for x in (cur or {}).get("fields", []) if x["name"] == seg), None)
                    if fld is None:
                        break
                    if i == len(segs) - 1:
                        if seg in RESERVED and any(cur is dm for dm in dep_msgs.values()):
                            return True
                    else:
                        cur = M.find_message(api, fld.get("type_name", "")) if fld.get("type") == "message" else None
    return False


def dep_flattened_composite(case):
    """a method_signature path through a message of a dependency-only file whose leaf is repeated, a map or a message"""
    api = _api(case)
    targets = api.get("file_to_generate")
    if not targets:
        return False
    dep_msgs = []
    for f in api["files"]:
        if f["name"] not in targets:
            dep_msgs.extend(m for _full, m, _p in M.walk_messages(f))
    for _f, _s, m in M.all_methods(api):
        for sig in m.get("signatures", []):
            for path in [p for p in sig.split(",") if "." in p]:
                cur = M.find_message(api, m["input"])
                segs = path.split(".")
                for i, seg in enumerate(segs):
                    fld = next((x for x in (cur or {}).get("fields", []) if x["name"] == seg), None)
                    if fld is None:
                        break
                    if i == len(segs) - 1:
                        if any(cur is dm for dm in dep_msgs) and (fld.get("repeated") or fld["type"] in ("map", "message")):
                            return True
                    else:
                        cur = M.find_message(api, fld.get("type_name", "")) if fld.get("type") == "message" else None
    return False


def mixin_additional_binding_body_differs(case):
    """service YAML: a mixin rule whose additional binding has another body spec than its primary binding"""
    y = (case.get("options") or {}).get("service_yaml") or {}
    for r in (y.get("http") or {}).get("rules", []):
        if any(ab.get("body") != r.get("body") for ab in r.get("additional_bindings", [])):
            return True
    return False


def async_rest_without_grpc(case):
    o = case.get("options") or {}
    return bool(o.get("async_rest")) and "grpc" not in (o.get("transport") or "grpc")
