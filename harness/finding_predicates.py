"""Input-shape predicates referenced by known_findings.json entries."""
