"""Run the generator under test and (optionally) exercise the emitted library.

generate():   in-process, through the real CLI function gapic.cli.generate.generate
              (click callback) so that option parsing and package derivation are
              the shipped ones.
generate_cli(): separate process `python -m gapic.cli.generate` (used by C10).
exercise():   fresh interpreter running harness.exerciser on one emitted library.
"""
import io, json, os, subprocess, sys, time, traceback

from . import common, model as M


class GenResult:
    def __init__(self, response=None, error=None, tb=None):
        self.response = response
        self.error = error      # exception instance or None
        self.tb = tb

    @property
    def files(self):
        return {f.name: f.content for f in self.response.file}


def write_aux(options, d):
    """Write service yaml / retry config into directory d, return the parameter string."""
    import yaml
    params = list(options.get("params", []))
    if options.get("service_yaml") is not None:
        p = os.path.join(d, "service.yaml")
        with open(p, "w") as fh:
            yaml.safe_dump(options["service_yaml"], fh, sort_keys=False)
        params.append(f"service-yaml={p}")
    if options.get("retry_config") is not None:
        p = os.path.join(d, "retry_config.json")
        with open(p, "w") as fh:
            json.dump(options["retry_config"], fh)
        params.append(f"retry-config={p}")
    return ",".join(params)


def generate_request(req_bytes):
    common.setup_gapic()
    from gapic.cli import generate as cli
    from google.protobuf.compiler import plugin_pb2
    out = io.BytesIO()
    try:
        cli.generate.callback(request=io.BytesIO(req_bytes), output=out)
    except BaseException as e:  # generation raising is an observable outcome
        if isinstance(e, (KeyboardInterrupt, MemoryError)):
            raise
        return GenResult(error=e, tb=traceback.format_exc())
    return GenResult(response=plugin_pb2.CodeGeneratorResponse.FromString(out.getvalue()))


def generate(api, options, auxdir):
    """api model + options -> (GenResult, request bytes, fds)"""
    param = write_aux(options, auxdir)
    req = M.build_request(api, param)
    return generate_request(req.SerializeToString()), req


def generate_cli(req_bytes, workdir, hashseed="0", extra_env=None, stub_pandoc=True, timeout=300):
    """Real CLI in a separate process; returns (returncode, response bytes, stderr)."""
    rq = os.path.join(workdir, f"req-{hashseed}.bin")
    rs = os.path.join(workdir, f"res-{hashseed}.bin")
    with open(rq, "wb") as fh:
        fh.write(req_bytes)
    env = common.child_env(extra_env, hashseed=str(hashseed))
    env["PYTHONPATH"] = common.REPO
    if stub_pandoc:
        code = ("import sys,pypandoc\n"
                "pypandoc.convert_text=lambda text,to=None,format=None,extra_args=(),**k:text\n"
                "from gapic.cli.generate import generate\n"
                "generate(sys.argv[1:],standalone_mode=True)\n")
        cmd = [common.PY, "-c", code, "--request", rq, "--output", rs]
    else:
        cmd = [common.PY, "-m", "gapic.cli.generate", "--request", rq, "--output", rs]
    r = subprocess.run(cmd, env=env, cwd=workdir, capture_output=True, text=True, timeout=timeout)
    data = b""
    if r.returncode == 0 and os.path.exists(rs):
        with open(rs, "rb") as fh:
            data = fh.read()
    for p in (rq, rs):
        try:
            os.remove(p)
        except OSError:
            pass
    return r.returncode, data, r.stderr


def materialise(response, outdir):
    for f in response.file:
        p = os.path.join(outdir, f.name)
        os.makedirs(os.path.dirname(p), exist_ok=True)
        with open(p, "w", encoding="utf-8") as fh:
            fh.write(f.content)


def materialise_dep_pb2(req, api, outdir):
    """Model files that are dependencies only (not in file_to_generate) have no installed _pb2 module: write the
    module protoc's python plugin would emit for each (serialized descriptor added to the default pool)."""
    own = {f["name"] for f in api["files"]}
    targets = set(req.file_to_generate)
    n = 0
    for fd in req.proto_file:
        if fd.name not in own or fd.name in targets:
            continue
        mod = fd.name[:-len(".proto")].replace("-", "_").replace("/", ".") + "_pb2"
        p = os.path.join(outdir, mod.replace(".", "/") + ".py")
        os.makedirs(os.path.dirname(p), exist_ok=True)
        deps = [d[:-len(".proto")].replace("-", "_").replace("/", ".") + "_pb2" for d in fd.dependency]
        with open(p, "w", encoding="utf-8") as fh:
            fh.write("# emulation of protoc --python_out for a dependency-only file of the model\n"
                     "import importlib\n"
                     "from google.protobuf import descriptor_pool as _descriptor_pool\n"
                     "from google.protobuf.internal import builder as _builder\n"
                     + "".join(f"importlib.import_module({d!r})\n" for d in deps)
                     + f"DESCRIPTOR = _descriptor_pool.Default().AddSerializedFile({fd.SerializeToString()!r})\n"
                     "_globals = globals()\n"
                     "_builder.BuildMessageAndEnumDescriptors(DESCRIPTOR, _globals)\n"
                     f"_builder.BuildTopDescriptorsAndMessages(DESCRIPTOR, {mod!r}, _globals)\n")
        n += 1
    return n


def exercise(prop, casedir, outdir, req, api, options, inner, timeout=600):
    """Run harness.exerciser in a fresh interpreter. Returns the result dict.
    A crash of the exerciser itself is reported as {"harness_error": ...}."""
    from google.protobuf import descriptor_pb2
    fds = descriptor_pb2.FileDescriptorSet()
    fds.file.extend(req.proto_file)
    with open(os.path.join(casedir, "fds.bin"), "wb") as fh:
        fh.write(fds.SerializeToString())
    case = {"property": prop, "out": outdir, "api": api, "options": options, "inner": inner,
            "file_to_generate": list(req.file_to_generate)}
    with open(os.path.join(casedir, "case.json"), "w") as fh:
        json.dump(case, fh)
    env = common.child_env({"PYTHONPATH": common.VERIF})
    t = time.time()
    try:
        r = subprocess.run([common.PY, "-m", "harness.exerciser", casedir], env=env, cwd=casedir,
                           capture_output=True, text=True, timeout=timeout)
    except subprocess.TimeoutExpired:
        return {"harness_error": f"exerciser timeout after {timeout}s"}
    rp = os.path.join(casedir, "result.json")
    if not os.path.exists(rp):
        return {"harness_error": f"exerciser died rc={r.returncode}: {r.stderr[-2000:]}"}
    with open(rp) as fh:
        res = json.load(fh)
    res["exerciser_s"] = time.time() - t
    return res
