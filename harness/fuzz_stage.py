"""Parent side of the atheris campaigns: start N children (harness.fuzz_child), collect counters and violations."""
import glob, json, os, subprocess, sys, time

from . import common
from .engine import Violation

DEPS = os.path.join(common.VERIF, ".deps")


def available():
    """atheris is installed into /verif/.deps by MANIFEST.setup_cmd (offline wheelhouse); None if it cannot be imported."""
    r = subprocess.run([common.PY, "-c", "import sys; sys.path.insert(0, sys.argv[1]); import atheris", DEPS], capture_output=True, text=True)
    return r.returncode == 0


def campaign(pid, seed, rec, workers, runs, max_len=4096, wall=600):
    """Each child: libFuzzer -runs=<runs> -seed=<derived>, empty corpus, coverage from the property's FUZZ_MODULES.
    -> dict for the evidence file. Raises Violation(kind, msg, case) for the first violation found."""
    if not available():
        rec.cls("atheris:unavailable")
        return {"atheris": "not importable (setup_cmd did not run?)", "executions": 0}
    with common.scratch("fuzz") as d:
        procs = []
        for i in range(workers):
            corpus = os.path.join(d, f"corpus-{i}")
            os.makedirs(corpus)
            cmd = [common.PY, "-m", "harness.fuzz_child", pid, d, str(i), corpus, f"-runs={runs}", f"-seed={(seed * 1000 + i) % (2 ** 31) or 1}",
                   f"-max_len={max_len}", f"-max_total_time={wall}", f"-artifact_prefix={d}/crash-{i}-", "-print_final_stats=1", "-verbosity=0", "-len_control=0"]
            env = common.child_env()
            env["PYTHONPATH"] = common.VERIF + os.pathsep + common.REPO
            procs.append(subprocess.Popen(cmd, cwd=common.VERIF, env=env, stdout=subprocess.DEVNULL, stderr=subprocess.PIPE, text=True))
        t0 = time.time()
        tails = []
        for p in procs:
            try:
                _, err = p.communicate(timeout=max(60, wall * 2 - (time.time() - t0)))
            except subprocess.TimeoutExpired:
                p.kill()
                _, err = p.communicate()
            tails.append((p.returncode, (err or "")[-1500:]))
        execs, cov, vio = 0, 0, None
        for i in range(workers):
            sp = os.path.join(d, f"stats-{i}.json")
            if os.path.exists(sp):
                with open(sp) as fh:
                    st = json.load(fh)
                execs += st.get("executions", 0)
                rec.merge(st)
            vp = os.path.join(d, f"violation-{i}.json")
            if vio is None and os.path.exists(vp):
                with open(vp) as fh:
                    vio = json.load(fh)
            for line in tails[i][1].splitlines():
                if line.startswith("stat::new_units_added") or "cov:" in line:
                    pass
        corpus_units = sum(len(os.listdir(os.path.join(d, f"corpus-{i}"))) for i in range(workers))
        dead = [(rc, t[-400:]) for rc, t in tails if rc not in (0,) and vio is None]
        out = {"atheris": "3.1 (libFuzzer), Hypothesis fuzz_one_input over the property's own strategy", "workers": workers,
               "runs_per_worker": runs, "executions": execs, "corpus_units_kept": corpus_units, "wall_s": round(time.time() - t0, 1)}
        if dead:
            out["worker_errors"] = [f"rc={rc}: {t}" for rc, t in dead[:2]]
    if vio is not None:
        v = vio["violation"]
        raise Violation(v["kind"], "[atheris] " + v["msg"], vio["case"])
    return out


def stage(prop, tier, seed, rec, info, quick=(4, 3000, 60), thorough=(16, 150000, 900)):
    """extra_stage body shared by the properties that have a pure-function sub-case."""
    workers, runs, wall = quick if tier == "quick" else thorough
    info.update(campaign(prop.ID, seed, rec, workers=workers, runs=runs, wall=wall))
