"""Coverage-guided campaign (atheris / libFuzzer) over one property's cheap, pure-function cases.

Run as:  python -m harness.fuzz_child <PID> <outdir> <index> [libFuzzer flags]

libFuzzer mutates a byte string; Hypothesis' `fuzz_one_input` decodes it through the SAME strategy the property's
generated search uses (`prop.fuzz_strategy()`), so the input domain and the oracle (`prop.run_case`) are those of the
registered check and only the search procedure differs: coverage feedback from the instrumented `gapic` modules
instead of random draws. A violation is written to <outdir>/violation-<index>.json (the replay case) before the
exception reaches libFuzzer; counters go to <outdir>/stats-<index>.json (atexit handlers do not run under atheris, so
they are rewritten every few hundred executions).
"""
import json, os, sys


def main():
    pid, outdir, idx = sys.argv[1], sys.argv[2], sys.argv[3]
    flags = sys.argv[4:]
    sys.path.insert(0, os.path.join(os.path.dirname(os.path.dirname(os.path.abspath(__file__))), ".deps"))
    import atheris
    from harness import common, engine
    prop = engine.load_prop(pid)
    assert not any(m == "gapic" or m.startswith("gapic.") for m in sys.modules), "gapic imported before instrumentation"
    with atheris.instrument_imports(include=list(prop.FUZZ_MODULES)):
        common.setup_gapic()
        import importlib
        for mod in prop.FUZZ_MODULES:
            importlib.import_module(mod)
    from hypothesis import given, settings, HealthCheck
    rec = engine.Recorder()
    state = {"n": 0, "invalid": 0}
    stats_path = os.path.join(outdir, f"stats-{idx}.json")

    def flush():
        d = rec.dump()
        d["executions"] = state["n"]
        with open(stats_path + ".tmp", "w") as fh:
            json.dump(d, fh)
        os.replace(stats_path + ".tmp", stats_path)

    @settings(database=None, deadline=None, suppress_health_check=list(HealthCheck))
    @given(prop.fuzz_strategy(int(idx)))
    def test(case):
        rec.evaluations += 1
        try:
            prop.run_case(case, rec)
        except engine.Violation as v:
            with open(os.path.join(outdir, f"violation-{idx}.json"), "w") as fh:
                json.dump({"property": pid, "case": case, "violation": v.to_json()}, fh)
            flush()
            raise

    fuzz_one = test.hypothesis.fuzz_one_input

    def target(data):
        state["n"] += 1
        fuzz_one(data)
        if state["n"] % 500 == 0:
            flush()

    flush()
    atheris.Setup([sys.argv[0]] + flags, target)
    atheris.Fuzz()


if __name__ == "__main__":
    main()
