"""API model (plain JSON-able dicts) and its compilation to FileDescriptorProtos.

The model is what Hypothesis generates and shrinks and what replay files store.
`compile_api` turns it into the FileDescriptorProtos protoc would hand to the
plug-in (DESIGN 4.1): fully-qualified type names, synthetic map-entry types,
synthetic oneofs for proto3 optional placed after the real oneofs, json_name
filled in with protoc's algorithm, SourceCodeInfo locations for comments,
annotation options via the installed google.api pb2 modules, and the transitive
closure of dependency files copied from the default descriptor pool.

Model shape (all keys optional unless noted):

api     = {"files": [file, ...]}                       # every file is a target file
file    = {"name"*: "acme/lib/v1/lib.proto", "package"*: "acme.lib.v1",
           "messages": [msg], "enums": [enum], "services": [svc],
           "resource_definitions": [{"type", "patterns"}], "extra_imports": [...]}
msg     = {"name"*, "fields": [field], "oneofs": [name], "nested": [msg],
           "enums": [enum], "resource": {"type", "patterns", "plural", "singular"}, "comment"}
field   = {"name"*, "number"*, "type"*: scalar name | "message" | "enum" | "map",
           "type_name": ".pkg.Msg", "repeated": bool, "optional": bool (proto3 optional),
           "oneof": name, "required": bool, "behaviors": [int], "ref": {"type"| "child_type"},
           "format": "UUID4", "map_key": scalar, "map_value": {"type", "type_name"}, "comment"}
enum    = {"name"*, "values"*: [[name, number], ...], "comment"}
svc     = {"name"*, "host", "scopes": [..], "api_version", "methods": [method], "comment"}
method  = {"name"*, "input"*, "output"*, "cs": bool, "ss": bool,
           "http": {"verb", "uri", "body", "additional": [{"verb","uri","body"}]},
           "signatures": ["a,b.c"], "routing": [{"field","template"}],
           "lro": {"response","metadata"}, "deprecated": bool, "comment"}
"""
import re
from google.protobuf import descriptor_pb2 as dp, descriptor_pool

from . import deps as _deps

F = dp.FieldDescriptorProto

SCALARS = {
    "double": F.TYPE_DOUBLE, "float": F.TYPE_FLOAT, "int64": F.TYPE_INT64,
    "uint64": F.TYPE_UINT64, "int32": F.TYPE_INT32, "fixed64": F.TYPE_FIXED64,
    "fixed32": F.TYPE_FIXED32, "bool": F.TYPE_BOOL, "string": F.TYPE_STRING,
    "bytes": F.TYPE_BYTES, "uint32": F.TYPE_UINT32, "sfixed32": F.TYPE_SFIXED32,
    "sfixed64": F.TYPE_SFIXED64, "sint32": F.TYPE_SINT32, "sint64": F.TYPE_SINT64,
}
SCALAR_NAMES = list(SCALARS)
MAP_KEY_TYPES = ["int32", "int64", "uint32", "uint64", "sint32", "sint64", "fixed32",
                 "fixed64", "sfixed32", "sfixed64", "bool", "string"]
INT_TYPES = ["int32", "int64", "uint32", "uint64", "sint32", "sint64", "fixed32",
             "fixed64", "sfixed32", "sfixed64"]


def to_json_name(name):
    """protoc's ToJsonName: drop '_' and upper-case the following character."""
    out, up = [], False
    for ch in name:
        if ch == "_":
            up = True
        elif up:
            out.append(ch.upper())
            up = False
        else:
            out.append(ch)
    return "".join(out)


def camel(snake):
    return "".join(p[:1].upper() + p[1:] for p in snake.split("_"))


# ---------------------------------------------------------------------------
# walking helpers over the model

def walk_messages(file):
    """Yield (full_name_without_leading_dot, msg, path_indices) for all messages incl. nested."""
    def rec(prefix, msgs, path):
        for i, m in enumerate(msgs):
            full = f"{prefix}.{m['name']}"
            p = path + [i]
            yield full, m, p
            yield from rec(full, m.get("nested", []), p)
    yield from rec(file["package"], file.get("messages", []), [])


def walk_enums(file):
    for i, e in enumerate(file.get("enums", [])):
        yield f"{file['package']}.{e['name']}", e
    for full, m, _ in walk_messages(file):
        for e in m.get("enums", []):
            yield f"{full}.{e['name']}", e


def symbol_table(api):
    table = {}
    for f in api["files"]:
        for full, _, _ in walk_messages(f):
            table[full] = f["name"]
        for full, _ in walk_enums(f):
            table[full] = f["name"]
    return table


def find_message(api, full_name):
    full_name = full_name.lstrip(".")
    for f in api["files"]:
        for full, m, _ in walk_messages(f):
            if full == full_name:
                return m
    return None


def all_methods(api):
    """methods of the target files (a dependency-only file's services get no client)"""
    targets = api.get("file_to_generate")
    for f in api["files"]:
        if targets and f["name"] not in targets:
            continue
        for s in f.get("services", []):
            for m in s.get("methods", []):
                yield f, s, m


# ---------------------------------------------------------------------------
# compilation

def _file_of_type(type_name, table):
    n = type_name.lstrip(".")
    if n in table:
        return table[n]
    return _deps.file_of_symbol(n)


def _add_field(msg_pb, full_msg_name, fld, real_oneofs, used_files, table):
    t = fld["type"]
    f = msg_pb.field.add()
    f.name = fld["name"]
    f.number = fld["number"]
    f.json_name = to_json_name(fld["name"])
    f.label = F.LABEL_REPEATED if fld.get("repeated") else F.LABEL_OPTIONAL
    if t == "map":
        ename = camel(fld["name"]) + "Entry"
        e = msg_pb.nested_type.add(name=ename)
        e.options.map_entry = True
        k = e.field.add(name="key", number=1, label=F.LABEL_OPTIONAL, json_name="key",
                        type=SCALARS[fld["map_key"]])
        v = e.field.add(name="value", number=2, label=F.LABEL_OPTIONAL, json_name="value")
        mv = fld["map_value"]
        if mv["type"] in SCALARS:
            v.type = SCALARS[mv["type"]]
        else:
            v.type = F.TYPE_MESSAGE if mv["type"] == "message" else F.TYPE_ENUM
            v.type_name = mv["type_name"]
            used_files.add(_file_of_type(mv["type_name"], table))
        f.type = F.TYPE_MESSAGE
        f.type_name = f".{full_msg_name}.{ename}"
        f.label = F.LABEL_REPEATED
    elif t in SCALARS:
        f.type = SCALARS[t]
    else:
        f.type = F.TYPE_MESSAGE if t == "message" else F.TYPE_ENUM
        f.type_name = fld["type_name"]
        used_files.add(_file_of_type(fld["type_name"], table))
    if fld.get("oneof"):
        f.oneof_index = real_oneofs.index(fld["oneof"])
    behaviors = list(fld.get("behaviors", []))
    if fld.get("required") and 2 not in behaviors:
        behaviors.append(2)  # REQUIRED
    if behaviors:
        from google.api import field_behavior_pb2
        f.options.Extensions[field_behavior_pb2.field_behavior].extend(behaviors)
        used_files.add("google/api/field_behavior.proto")
    if fld.get("ref"):
        from google.api import resource_pb2
        rr = f.options.Extensions[resource_pb2.resource_reference]
        if "type" in fld["ref"]:
            rr.type = fld["ref"]["type"]
        if "child_type" in fld["ref"]:
            rr.child_type = fld["ref"]["child_type"]
        used_files.add("google/api/resource.proto")
    if fld.get("op_field") or fld.get("op_request_field") or fld.get("op_response_field"):
        from google.cloud import extended_operations_pb2 as ex
        if fld.get("op_field"):
            f.options.Extensions[ex.operation_field] = ex.OperationResponseMapping.Value(fld["op_field"])
        if fld.get("op_request_field"):
            f.options.Extensions[ex.operation_request_field] = fld["op_request_field"]
        if fld.get("op_response_field"):
            f.options.Extensions[ex.operation_response_field] = fld["op_response_field"]
        used_files.add("google/cloud/extended_operations.proto")
    if fld.get("format"):
        from google.api import field_info_pb2
        f.options.Extensions[field_info_pb2.field_info].format = \
            field_info_pb2.FieldInfo.Format.Value(fld["format"])
        used_files.add("google/api/field_info.proto")
    return f


def _add_enum(container, e):
    epb = container.add(name=e["name"])
    for n, v in e["values"]:
        epb.value.add(name=n, number=v)
    if e.get("allow_alias"):
        epb.options.allow_alias = True
    return epb


def _add_message(container, prefix, m, used_files, table, locs, path):
    mpb = container.add(name=m["name"])
    full = f"{prefix}.{m['name']}"
    real_oneofs = list(m.get("oneofs", []))
    for o in real_oneofs:
        mpb.oneof_decl.add(name=o)
    # nested types first so that map entries (added by _add_field) follow them
    for i, n in enumerate(m.get("nested", [])):
        _add_message(mpb.nested_type, full, n, used_files, table, locs, path + [3, i])
    for i, e in enumerate(m.get("enums", [])):
        _add_enum(mpb.enum_type, e)
        if e.get("comment"):
            locs.append((path + [4, i], e["comment"]))
        for j, vc in enumerate(e.get("value_comments", [])):
            if vc:
                locs.append((path + [4, i, 2, j], vc))
    optionals = []
    for i, fld in enumerate(m.get("fields", [])):
        fpb = _add_field(mpb, full, fld, real_oneofs, used_files, table)
        if fld.get("optional"):
            optionals.append(fpb)
        if fld.get("comment"):
            locs.append((path + [2, i], fld["comment"]))
    for fpb in optionals:  # synthetic oneofs after all real ones, as protoc does
        fpb.proto3_optional = True
        mpb.oneof_decl.add(name="_" + fpb.name)
        fpb.oneof_index = len(mpb.oneof_decl) - 1
    if m.get("resource"):
        from google.api import resource_pb2
        r = mpb.options.Extensions[resource_pb2.resource]
        r.type = m["resource"]["type"]
        r.pattern.extend(m["resource"]["patterns"])
        if m["resource"].get("plural"):
            r.plural = m["resource"]["plural"]
        if m["resource"].get("singular"):
            r.singular = m["resource"]["singular"]
        used_files.add("google/api/resource.proto")
    if m.get("deprecated"):
        mpb.options.deprecated = True
    if m.get("comment"):
        locs.append((path, m["comment"]))
    return mpb


def _set_http(rule, h):
    if h["verb"] == "custom":        # HttpRule.custom { kind, path }: verbs outside get/put/post/delete/patch (HEAD, OPTIONS ...)
        rule.custom.kind = h.get("kind", "HEAD")
        rule.custom.path = h["uri"]
    else:
        setattr(rule, h["verb"], h["uri"])
    if h.get("body"):
        rule.body = h["body"]
    if h.get("response_body"):
        rule.response_body = h["response_body"]


def _add_service(fd, s, used_files, table, locs, idx):
    from google.api import client_pb2
    spb = fd.service.add(name=s["name"])
    if s.get("host") is not None:
        spb.options.Extensions[client_pb2.default_host] = s["host"]
        used_files.add("google/api/client.proto")
    if s.get("scopes"):
        spb.options.Extensions[client_pb2.oauth_scopes] = ",".join(s["scopes"])
        used_files.add("google/api/client.proto")
    if s.get("api_version"):
        spb.options.Extensions[client_pb2.api_version] = s["api_version"]
        used_files.add("google/api/client.proto")
    if s.get("deprecated"):
        spb.options.deprecated = True
    if s.get("comment"):
        locs.append(([6, idx], s["comment"]))
    for j, m in enumerate(s.get("methods", [])):
        mpb = spb.method.add(name=m["name"], input_type=m["input"], output_type=m["output"])
        if m.get("cs"):
            mpb.client_streaming = True
        if m.get("ss"):
            mpb.server_streaming = True
        used_files.add(_file_of_type(m["input"], table))
        used_files.add(_file_of_type(m["output"], table))
        if m.get("http"):
            from google.api import annotations_pb2
            rule = mpb.options.Extensions[annotations_pb2.http]
            _set_http(rule, m["http"])
            for ab in m["http"].get("additional", []):
                _set_http(rule.additional_bindings.add(), ab)
            used_files.add("google/api/annotations.proto")
        for sig in m.get("signatures", []):
            mpb.options.Extensions[client_pb2.method_signature].append(sig)
            used_files.add("google/api/client.proto")
        if m.get("routing") is not None:
            from google.api import routing_pb2
            rr = mpb.options.Extensions[routing_pb2.routing]
            for rp in m["routing"]:
                p = rr.routing_parameters.add(field=rp["field"])
                if rp.get("template"):
                    p.path_template = rp["template"]
            rr.SetInParent()
            used_files.add("google/api/routing.proto")
        if m.get("lro") is not None:
            from google.longrunning import operations_pb2
            oi = mpb.options.Extensions[operations_pb2.operation_info]
            if m["lro"].get("response"):
                oi.response_type = m["lro"]["response"]
            if m["lro"].get("metadata"):
                oi.metadata_type = m["lro"]["metadata"]
            oi.SetInParent()
            used_files.add("google/longrunning/operations.proto")
        if m.get("op_service") or m.get("op_polling"):
            from google.cloud import extended_operations_pb2 as ex
            if m.get("op_service"):
                mpb.options.Extensions[ex.operation_service] = m["op_service"]
            if m.get("op_polling"):
                mpb.options.Extensions[ex.operation_polling_method] = True
            used_files.add("google/cloud/extended_operations.proto")
        if m.get("deprecated"):
            mpb.options.deprecated = True
        if m.get("comment"):
            locs.append(([6, idx, 2, j], m["comment"]))


def compile_file(file, table):
    fd = dp.FileDescriptorProto(name=file["name"], package=file["package"], syntax="proto3")
    used, locs = set(), []
    for i, e in enumerate(file.get("enums", [])):
        _add_enum(fd.enum_type, e)
        if e.get("comment"):
            locs.append(([5, i], e["comment"]))
        for j, vc in enumerate(e.get("value_comments", [])):
            if vc:
                locs.append(([5, i, 2, j], vc))
    for i, m in enumerate(file.get("messages", [])):
        _add_message(fd.message_type, file["package"], m, used, table, locs, [4, i])
    for i, s in enumerate(file.get("services", [])):
        _add_service(fd, s, used, table, locs, i)
    if file.get("resource_definitions"):
        from google.api import resource_pb2
        for rd in file["resource_definitions"]:
            r = fd.options.Extensions[resource_pb2.resource_definition].add()
            r.type = rd["type"]
            r.pattern.extend(rd["patterns"])
        used.add("google/api/resource.proto")
    for x in file.get("extra_imports", []):
        used.add(x)
    used.discard(file["name"])
    used.discard(None)
    fd.dependency.extend(sorted(used))
    for path, text in locs:
        kind = "leading"
        if isinstance(text, dict):
            kind, text = text.get("kind", "leading"), text["text"]
        loc = fd.source_code_info.location.add(path=path)
        if kind == "trailing":
            loc.trailing_comments = text
        elif kind == "detached":
            loc.leading_detached_comments.append(text)
        else:
            loc.leading_comments = text
    return fd


def compile_api(api):
    """-> (all FileDescriptorProtos in dependency order, names of target files)."""
    names_ = [f["name"] for f in api["files"]]
    if len(set(names_)) != len(names_):
        raise ValueError(f"model error: two files of one request share a name: {sorted(names_)}")
    table = symbol_table(api)
    targets = [compile_file(f, table) for f in api["files"]]
    target_names = [t.name for t in targets]
    # topological order among the targets
    by_name = {t.name: t for t in targets}
    ordered, seen = [], set()

    def visit(n, stack=()):
        if n in seen:
            return
        if n in stack:
            raise ValueError(f"model error: import cycle through {n}")
        for d in by_name[n].dependency:
            if d in by_name:
                visit(d, stack + (n,))
        seen.add(n)
        ordered.append(by_name[n])
    for n in target_names:
        visit(n)
    ext = []
    for t in ordered:
        for d in t.dependency:
            if d not in by_name and d not in ext:
                ext.append(d)
    dep_fds = _deps.dep_files(ext)
    return dep_fds + ordered, target_names


def validate(fds):
    """Load into a fresh pool: the validation protoc's descriptor builder applies."""
    pool = descriptor_pool.DescriptorPool()
    for fd in fds:
        pool.Add(fd)
    return pool


def build_request(api, parameter=""):
    from google.protobuf.compiler import plugin_pb2
    fds, names = compile_api(api)
    req = plugin_pb2.CodeGeneratorRequest(parameter=parameter)
    req.file_to_generate.extend(api.get("file_to_generate") or names)
    req.proto_file.extend(fds)
    return req


# ---------------------------------------------------------------------------
# small reference helpers shared by several oracles (written from the public
# naming convention, not from the repository)

_VERSION_RE = re.compile(r"^v\d+(p\d+)?((alpha|beta)\d*)?$")


def common_package(api):
    import os
    pk = [f["package"] for f in api["files"] if f["name"] in (api.get("file_to_generate") or [x["name"] for x in api["files"]])]
    return os.path.commonprefix(pk).rstrip(".")


def split_package(pkg):
    """-> (namespace tuple, name, version) by the documented convention."""
    parts = pkg.split(".")
    version = ""
    for i, p in enumerate(parts):
        if _VERSION_RE.match(p):
            version = p
            parts = parts[:i]
            break
    return tuple(parts[:-1]), parts[-1], version


def python_package(pkg):
    ns, name, version = split_package(pkg)
    leaf = f"{name}_{version}" if version else name
    return ".".join([s.lower() for s in ns] + [leaf.lower()])
