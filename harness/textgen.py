"""Hypothesis strategies for comment texts and Python source layouts (C20, C01 rich comments)."""
from hypothesis import strategies as st

LETTERS = "abcdefghijklmnopqrstuvwxyzABCDEFGHIJKLMNOPQRSTUVWXYZ"
PUNCT = ".,;:!?()-+/=%&#@$^~<>{}'"
MARKUP = "|*`_[]"


def words(markup=False, quotes=True, backslash=True):
    alpha = LETTERS + "0123456789" + PUNCT + (MARKUP if markup else "")
    base = st.text(alphabet=alpha, min_size=1, max_size=12)
    opts = [base, base, base,
            st.sampled_from(["the", "a", "resource", "name.", "e.g.", "i.e.", "Note:", "value:", "-", "+", "1.", "12.", "-x", "http://example.com/a-b-c/d"]),
            st.text(alphabet=LETTERS, min_size=25, max_size=90)]       # long unbreakable tokens
    if quotes:
        opts.append(st.sampled_from(['"', '""', '"""', '"quoted"', "'''", 'say "hi"', 'x"']))
    if backslash:
        opts.append(st.sampled_from(["\\", "\\n", "a\\b", "\\\\", "C:\\dir\\", "\\x", "\\N", "\\u12", "\\'", '\\"']))
    return st.one_of(*opts)


SEPS = [" ", " ", " ", " ", "  ", "   ", "\n", "\n", "\n\n", "\n ", "\n  ", "\t", ":\n", ":\n\n",
        "\n- ", "\n+ ", "\n1. ", "\n12. ", "\n\n- ", " \n", "\n\n\n"]


@st.composite
def comment_text(draw, markup=False, quotes=True, backslash=True, tabs=True, max_words=60,
                 protoc_style=None):
    """Text in the shape protoc delivers comments: words joined by separators."""
    n = draw(st.integers(1, max_words))
    ws = draw(st.lists(words(markup, quotes, backslash), min_size=n, max_size=n))
    seps = [s for s in SEPS if tabs or "\t" not in s]
    out = []
    lead = draw(st.sampled_from(["", "", " ", " ", "\n", "  "]))
    out.append(lead)
    for i, w in enumerate(ws):
        out.append(w)
        if i != len(ws) - 1:
            out.append(draw(st.sampled_from(seps)))
    out.append(draw(st.sampled_from(["", "", "\n", " ", " \n", "\n\n"])))
    return "".join(out)


# ---------------------------------------------------------------------------
# Python source layouts for fix_whitespace

STMTS = ["x = 1", "y = [1, 2]", "pass", "return x", "import os", "from a import b", "print('a  b')",
         "z = {'k': 'v'}", "_private = 3", "assert x", "# a comment", "#: doc comment", "@decorator",
         "x += 1", "s = 'text   '", "_ = f(x)", "raise ValueError('no')"]


@st.composite
def source_layout(draw):
    """A syntactically valid module built from blocks with random blank-line runs, trailing
    blanks, nested class/def bodies, decorators, multi-line strings and brackets."""
    lines = []

    def blanks():
        n = draw(st.sampled_from([0, 0, 1, 1, 2, 2, 3, 4, 5]))
        for _ in range(n):
            lines.append(draw(st.sampled_from(["", "", "", "    ", "  ", "\t", "        "])))

    def trail(s):
        return s + draw(st.sampled_from(["", "", "", " ", "   ", "\t", " \t "]))

    def body(ind, depth):
        n = draw(st.integers(1, 4))
        for _ in range(n):
            blanks()
            kind = draw(st.sampled_from(["stmt", "stmt", "stmt", "def", "class", "if", "str", "bracket", "deco", "comment", "docexpr"]))
            pad = " " * ind
            if kind == "stmt":
                s = draw(st.sampled_from([x for x in STMTS if not x.startswith(("@", "return"))]))
                lines.append(trail(pad + s))
            elif kind == "comment":
                lines.append(trail(pad + "# note " + draw(st.sampled_from(["", "a", "b  c"]))))
            elif kind in ("def", "class", "if") and depth < 3:
                if kind == "def":
                    if draw(st.booleans()):
                        lines.append(trail(pad + "@staticmethod"))
                        blanks() if draw(st.integers(0, 5)) == 0 else None
                    lines.append(trail(pad + f"def f{len(lines)}(a=1):"))
                elif kind == "class":
                    lines.append(trail(pad + f"class C{len(lines)}:"))
                else:
                    lines.append(trail(pad + "if x:"))
                if draw(st.booleans()):
                    lines.append(trail(" " * (ind + 4) + '"""Docstring.'))
                    for _ in range(draw(st.integers(0, 3))):
                        lines.append(draw(st.sampled_from(["", "    ", " " * (ind + 4) + "More text.  ", "class not code", "def not code", "# not comment", "_under", " " * (ind + 4) + "Args:"])))
                    lines.append(trail(" " * (ind + 4) + '"""'))
                body(ind + 4, depth + 1)
            elif kind == "str":
                lines.append(trail(pad + f's{len(lines)} = """first'))
                for _ in range(draw(st.integers(0, 4))):
                    lines.append(draw(st.sampled_from(["", "", "   ", "text  ", "    indented", "class X", "def y", "@z", "#c", "_u", "        deeper"])))
                lines.append(trail('last"""'))
            elif kind == "bracket":
                lines.append(trail(pad + f"b{len(lines)} = ["))
                for _ in range(draw(st.integers(1, 3))):
                    blanks() if draw(st.integers(0, 3)) == 0 else None
                    lines.append(trail(" " * draw(st.sampled_from([ind + 4, ind + 2, ind + 6, ind + 8, 0, 12])) + draw(st.sampled_from(["1,", "'a  b',", "_x,", "# c", "f(2),"]))))
                lines.append(trail(pad + "]"))
            elif kind == "deco" and depth < 3:
                lines.append(trail(pad + "@decorator"))
                lines.append(trail(pad + f"def g{len(lines)}():"))
                body(ind + 4, depth + 1)
            elif kind == "docexpr":
                lines.append(trail(pad + '"""A string statement."""'))
            else:
                lines.append(trail(pad + "pass"))

    lines.append(draw(st.sampled_from(["# -*- coding: utf-8 -*-", "import sys", '"""Module doc."""', "x = 0", "_x = 0", "f = None"])))
    lines.append("def decorator(f): return f")
    lines.append("def f(*a): return a")
    body(0, 0)
    end = draw(st.sampled_from(["", "\n", "\n\n", "\n\n\n", "  ", "\n  \n", "\n\t\n"]))
    return "\n".join(lines) + end
