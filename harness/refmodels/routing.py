"""Reference model of AIP-4222 request routing (written from google/api/routing.proto and AIP-4222).

explicit(params, get_field) -> dict of header pairs
  params: [{"field": "a.b", "template": "projects/*/{key=zones/*}/**" | None}]
  A parameter contributes key -> captured value iff the (nested) field is a non-empty string and the WHOLE
  value matches the template; `*` = exactly one non-empty segment, `**` = zero or more segments; literal
  segments match themselves; later parameters override earlier ones with the same key.
implicit(uri) -> list of variable paths of an HTTP path template, in order.
"""
import re


def parse_template(tpl):
    """-> (key, [segments before], [segments of the named part], [segments after]) ; segments are
    '*', '**' or literal text."""
    m = re.search(r"\{([^}=]+)(?:=([^}]*))?\}", tpl)
    if not m:
        raise ValueError(f"no named segment in {tpl!r}")
    key, sub = m.group(1), m.group(2) if m.group(2) is not None else "*"
    before = [s for s in tpl[:m.start()].split("/") if s != ""]
    after = [s for s in tpl[m.end():].split("/") if s != ""]
    return key, before, sub.split("/"), after


def _match(segs, pattern):
    """all ways pattern (list of '*', '**', literals) can consume a prefix of segs -> set of consumed counts"""
    ends = {0}
    for p in pattern:
        nxt = set()
        for e in ends:
            if p == "**":
                for k in range(e, len(segs) + 1):
                    nxt.add(k)
            elif e < len(segs) and segs[e] != "" and (p == "*" or p == segs[e]):
                nxt.add(e + 1)
        ends = nxt
        if not ends:
            break
    return ends


def capture(template, value):
    """captured string of the named segment if the whole value matches, else None.
    When several splits match, the named part is taken greedily left to right (longest)."""
    key, before, named, after = parse_template(template)
    segs = value.split("/")
    best = None
    for b in sorted(_match(segs, before)):
        rest = segs[b:]
        for n in sorted(_match(rest, named), reverse=True):
            tail = rest[n:]
            if len(tail) in _match(tail, after):
                cand = "/".join(rest[:n])
                if best is None:
                    best = cand
        if best is not None:
            break
    return key, best


def explicit(params, get_field):
    out = {}
    for p in params:
        v = get_field(p["field"])
        if not isinstance(v, str) or v == "":
            continue
        if not p.get("template"):
            out[p["field"]] = v
            continue
        key, cap = capture(p["template"], v)
        if cap:
            out[key] = cap
    return out


def implicit(uri):
    return [m.group(1) for m in re.finditer(r"\{([A-Za-z0-9_.]+)(?:=[^}]*)?\}", uri)]
