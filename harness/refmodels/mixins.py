"""Reference model of mixin exposure (from the C17 statement).

MIXINS: api name -> {rpc: (routing field, request type, response type or None)}
exposed(service_yaml, api_model, add_iam_methods) -> set of RPC names every client must expose (and no others)
"""
MIXINS = {
    "google.longrunning.Operations": {
        "ListOperations": ("name", "google.longrunning.ListOperationsRequest", "google.longrunning.ListOperationsResponse"),
        "GetOperation": ("name", "google.longrunning.GetOperationRequest", "google.longrunning.Operation"),
        "DeleteOperation": ("name", "google.longrunning.DeleteOperationRequest", None),
        "CancelOperation": ("name", "google.longrunning.CancelOperationRequest", None),
        "WaitOperation": ("name", "google.longrunning.WaitOperationRequest", "google.longrunning.Operation"),
    },
    "google.iam.v1.IAMPolicy": {
        "SetIamPolicy": ("resource", "google.iam.v1.SetIamPolicyRequest", "google.iam.v1.Policy"),
        "GetIamPolicy": ("resource", "google.iam.v1.GetIamPolicyRequest", "google.iam.v1.Policy"),
        "TestIamPermissions": ("resource", "google.iam.v1.TestIamPermissionsRequest", "google.iam.v1.TestIamPermissionsResponse"),
    },
    "google.cloud.location.Locations": {
        "ListLocations": ("name", "google.cloud.location.ListLocationsRequest", "google.cloud.location.ListLocationsResponse"),
        "GetLocation": ("name", "google.cloud.location.GetLocationRequest", "google.cloud.location.Location"),
    },
}
ALL_RPCS = {rpc: (api,) + v for api, rpcs in MIXINS.items() for rpc, v in rpcs.items()}
IAM = set(MIXINS["google.iam.v1.IAMPolicy"])


def own_iam_rpcs(api_model):
    return {m["name"] for f in api_model["files"] for s in f.get("services", []) for m in s["methods"] if m["name"] in IAM}


def exposed(service_yaml, api_model, add_iam_methods=False):
    listed = {a.get("name") for a in (service_yaml or {}).get("apis", [])}
    rules = {r.get("selector") for r in ((service_yaml or {}).get("http") or {}).get("rules", [])}
    out = set()
    for api, rpcs in MIXINS.items():
        if api not in listed:
            continue
        if api == "google.iam.v1.IAMPolicy" and own_iam_rpcs(api_model):
            continue            # IAM mixins yield to same-named RPCs defined by the API itself
        for rpc in rpcs:
            if f"{api}.{rpc}" in rules:
                out.add(rpc)
    if add_iam_methods and not own_iam_rpcs(api_model):
        out |= IAM
    return out
