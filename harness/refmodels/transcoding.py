"""Reference model of google.api.http transcoding (written from google/api/http.proto), used to judge
what the emitted REST transport puts on the wire.

  parse_uri(template)            -> (segments, verb) ; segments: ("lit", text) | ("var", field_path, [sub segments])
                                    sub segments are "*", "**" or literal text
  match_path(template, path)     -> {field_path: captured text (percent-decoded)} or None
  bindings(method_http)          -> [{"verb","uri","body"}] primary first
  reconstruct(desc, cls, pathvars, query_pairs, body_json, body_spec) -> dynamic message rebuilt from the wire
"""
import base64, json, re, urllib.parse

from google.protobuf import json_format
from google.protobuf.descriptor import FieldDescriptor as FD


def parse_uri(tpl):
    verb = None
    m = re.search(r":([A-Za-z0-9_]+)$", tpl)
    if m and "}" not in tpl[m.start():]:
        verb, tpl = m.group(1), tpl[:m.start()]
    segs, i = [], 0
    parts = []
    depth, cur = 0, ""
    for ch in tpl.lstrip("/"):
        if ch == "{":
            depth += 1
        elif ch == "}":
            depth -= 1
        if ch == "/" and depth == 0:
            parts.append(cur)
            cur = ""
        else:
            cur += ch
    parts.append(cur)
    for p in parts:
        if p.startswith("{"):
            inner = p[1:-1]
            if "=" in inner:
                name, sub = inner.split("=", 1)
            else:
                name, sub = inner, "*"
            segs.append(("var", name, sub.split("/")))
        else:
            segs.append(("lit", p))
    return segs, verb


def variables(tpl):
    return [s[1] for s in parse_uri(tpl)[0] if s[0] == "var"]


def _flat(segs):
    """flatten to a list of (kind, text, var) with kind in lit|*|**"""
    out = []
    for s in segs:
        if s[0] == "lit":
            out.append(("lit", s[1], None))
        else:
            for sub in s[2]:
                out.append((sub if sub in ("*", "**") else "lit", sub, s[1]))
    return out


def match_path(tpl, raw_path):
    """raw_path: path as seen on the wire (still percent-encoded). -> {var: decoded text} | None"""
    segs, verb = parse_uri(tpl)
    path = raw_path
    if verb is not None:
        if not path.endswith(":" + verb):
            return None
        path = path[: -len(verb) - 1]
    elif re.search(r":[A-Za-z0-9_]+$", path.rsplit("/", 1)[-1]) and False:
        return None
    got = path.lstrip("/").split("/")
    flat = _flat(segs)
    caps = {}

    def rec(i, j):
        if i == len(flat):
            return j == len(got)
        kind, text, var = flat[i]
        if kind == "**":
            for k in range(len(got), j - 1, -1):
                if rec(i + 1, k):
                    if var:
                        caps.setdefault(var, []).insert(0, (i, got[j:k]))
                    return True
            return False
        if j >= len(got):
            return False
        if kind == "*":
            if got[j] == "":
                return False
            if rec(i + 1, j + 1):
                if var:
                    caps.setdefault(var, []).insert(0, (i, [got[j]]))
                return True
            return False
        if urllib.parse.unquote(got[j]) == text and rec(i + 1, j + 1):
            if var:
                caps.setdefault(var, []).insert(0, (i, [got[j]]))
            return True
        return False

    if not rec(0, 0):
        return None
    out = {}
    for var, pieces in caps.items():
        pieces.sort(key=lambda x: x[0])
        out[var] = "/".join(urllib.parse.unquote(s) for _, ss in pieces for s in ss)
    for s in segs:
        if s[0] == "var":
            out.setdefault(s[1], "")
    return out


def bindings(http):
    out = [{"verb": http["verb"], "uri": http["uri"], "body": http.get("body")}]
    for ab in http.get("additional", []):
        out.append({"verb": ab["verb"], "uri": ab["uri"], "body": ab.get("body")})
    return out


# ---------------------------------------------------------------------------
# reconstruction of the request from what travelled

class WireError(Exception):
    pass


def _field_by_json(desc, key):
    for f in desc.fields:
        if f.json_name == key or f.name == key:
            return f
    return None


def _leaf_from_text(fd, text):
    t = fd.type
    if t in (FD.TYPE_STRING,):
        return text
    if t == FD.TYPE_BOOL:
        if text in ("true", "false"):
            return text == "true"
        raise WireError(f"bool query value {text!r} is not 'true'/'false'")
    if t in (FD.TYPE_DOUBLE, FD.TYPE_FLOAT):
        return float(text)
    if t == FD.TYPE_BYTES:
        if not re.fullmatch(r"[A-Za-z0-9+/_=-]*", text):
            raise WireError(f"bytes query value {text!r} is not base64")
        pad = "=" * (-len(text) % 4)
        return base64.b64decode((text + pad).replace("-", "+").replace("_", "/"))
    if t == FD.TYPE_ENUM:
        if re.fullmatch(r"-?\d+", text):
            return int(text)
        v = fd.enum_type.values_by_name.get(text)
        if v is None:
            raise WireError(f"enum query value {text!r} is not a value of {fd.enum_type.full_name}")
        return v.number
    return int(text)


def _set_leaf(msg, fd, text):
    if fd.message_type is not None:
        # well-known types travel in their JSON string form
        sub = getattr(msg, fd.name).add() if fd.label == FD.LABEL_REPEATED else getattr(msg, fd.name)
        try:
            json_format.Parse(json.dumps(text), sub)
        except Exception:
            try:
                json_format.Parse(text, sub)
            except Exception as e:
                raise WireError(f"query value {text!r} for {fd.full_name} does not parse: {e}")
        return
    try:
        v = _leaf_from_text(fd, text)
    except WireError:
        raise
    except Exception as e:
        raise WireError(f"query value {text!r} is not a valid {fd.full_name} ({type(e).__name__}: {e})")
    if fd.label == FD.LABEL_REPEATED:
        getattr(msg, fd.name).append(v)
    else:
        setattr(msg, fd.name, v)


def apply_param(msg, key, text, where):
    """Set field `key` (dotted, lowerCamel or proto names) of msg from text. Returns the leaf path in proto names."""
    cur, path = msg, []
    segs = key.split(".")
    for i, seg in enumerate(segs):
        fd = _field_by_json(cur.DESCRIPTOR, seg)
        if fd is None:
            raise WireError(f"{where} key {key!r}: {cur.DESCRIPTOR.full_name} has no field {seg!r}")
        path.append(fd.name)
        if i == len(segs) - 1:
            _set_leaf(cur, fd, text)
        else:
            if fd.message_type is None or fd.label == FD.LABEL_REPEATED:
                raise WireError(f"{where} key {key!r}: {seg!r} is not a singular message")
            cur = getattr(cur, fd.name)
    return ".".join(path)


def leaf_paths(msg, prefix=""):
    """set of dotted proto-name paths of populated leaves (message-typed well-known values count as leaves)."""
    out = set()
    for fd, v in msg.ListFields():
        p = prefix + fd.name
        if fd.message_type is not None and fd.label != FD.LABEL_REPEATED and not fd.message_type.full_name.startswith("google.protobuf."):
            out |= leaf_paths(v, p + ".")       # an empty message has no leaves
        else:
            out.add(p)
    return out


def prune_empty(msg):
    """Clear singular message fields that are present but empty, recursively: the presence of an empty
    message cannot be expressed in query parameters and is not part of what the statement fixes."""
    for fd, v in list(msg.ListFields()):
        if fd.message_type is None:
            continue
        if fd.label == FD.LABEL_REPEATED:
            if fd.message_type.GetOptions().map_entry:
                vf = fd.message_type.fields_by_name["value"]
                if vf.message_type is not None:
                    for k in v:
                        prune_empty(v[k])
            else:
                for x in v:
                    prune_empty(x)
            continue
        prune_empty(v)
        if v.ByteSize() == 0:
            msg.ClearField(fd.name)
    return msg
