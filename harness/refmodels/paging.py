"""Reference AIP-4233 classification, written from the C07 statement:
paginated  <=>  request has a string `page_token` and an integer `page_size` (or legacy `max_results`,
integer or Int32Value/UInt32Value) and response has a string `next_page_token` and >= 1 repeated field.
Works on protobuf descriptors of the INPUT pool."""
from google.protobuf.descriptor import FieldDescriptor as FD

INTS = {FD.TYPE_INT32, FD.TYPE_INT64, FD.TYPE_UINT32, FD.TYPE_UINT64, FD.TYPE_SINT32, FD.TYPE_SINT64,
        FD.TYPE_FIXED32, FD.TYPE_FIXED64, FD.TYPE_SFIXED32, FD.TYPE_SFIXED64}


def _singular_string(fd):
    return fd is not None and fd.type == FD.TYPE_STRING and fd.label != FD.LABEL_REPEATED


def _integer(fd):
    return fd is not None and fd.type in INTS and fd.label != FD.LABEL_REPEATED


def _wrapper(fd):
    return (fd is not None and fd.type == FD.TYPE_MESSAGE and fd.label != FD.LABEL_REPEATED
            and fd.message_type.full_name in ("google.protobuf.Int32Value", "google.protobuf.UInt32Value"))


def classify(in_desc, out_desc, client_streaming=False, server_streaming=False):
    """-> (paged: bool, item field descriptor or None, vector for evidence)"""
    pt = in_desc.fields_by_name.get("page_token")
    ps = in_desc.fields_by_name.get("page_size")
    mr = in_desc.fields_by_name.get("max_results")
    nt = out_desc.fields_by_name.get("next_page_token")
    reps = [f for f in out_desc.fields if f.label == FD.LABEL_REPEATED]
    size_ok = _integer(ps) or _integer(mr) or _wrapper(mr)
    vec = {"page_token": None if pt is None else ("string" if _singular_string(pt) else "other"),
           "page_size": None if ps is None else ("int" if _integer(ps) else "other"),
           "max_results": None if mr is None else ("int" if _integer(mr) else "wrapper" if _wrapper(mr) else "other"),
           "next_page_token": None if nt is None else ("string" if _singular_string(nt) else "other"),
           "repeated": len(reps)}
    paged = bool(_singular_string(pt) and size_ok and _singular_string(nt) and reps)
    return paged, (reps[0] if reps else None), vec
