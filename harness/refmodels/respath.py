"""Reference model for resource name patterns (AIP-122/123), own parser.

tokens(pattern)  -> [("lit", text) | ("var", name, multi)]   multi=True for {name=**}
build(pattern, segs) -> str
fits(pattern, s) -> bool : can s be produced from the pattern by SOME assignment of non-empty strings to the
                           variables (the weakest reading of "matches the pattern")?
fits_strict(pattern, s): additionally single-segment variables contain no '/' and no separator of their segment.
"""
import re

_VAR = re.compile(r"\{([A-Za-z0-9_\-]+)(=\*\*|=\*)?\}")


def tokens(pattern):
    out, pos = [], 0
    for m in _VAR.finditer(pattern):
        if m.start() > pos:
            out.append(("lit", pattern[pos:m.start()]))
        out.append(("var", m.group(1), m.group(2) == "=**"))
        pos = m.end()
    if pos < len(pattern):
        out.append(("lit", pattern[pos:]))
    return out


def variables(pattern):
    return [t[1] for t in tokens(pattern) if t[0] == "var"]


def build(pattern, segs):
    return "".join(t[1] if t[0] == "lit" else segs[t[1]] for t in tokens(pattern))


def _regex(pattern, strict):
    parts = []
    toks = tokens(pattern)
    for i, t in enumerate(toks):
        if t[0] == "lit":
            parts.append(re.escape(t[1]))
        elif t[2] or not strict:
            parts.append("(.+)")
        else:
            # single-segment variable: no '/', and none of the separators that delimit it inside its segment
            seps = set()
            for j in (i - 1, i + 1):
                if 0 <= j < len(toks) and toks[j][0] == "lit":
                    lit = toks[j][1]
                    ch = lit[-1] if j < i else lit[0]
                    if ch != "/":
                        seps.add(ch)
            parts.append("([^/" + "".join(re.escape(c) for c in sorted(seps)) + "]+)")
    return re.compile("".join(parts), re.DOTALL)


def fits(pattern, s):
    if pattern == "*":
        return True
    return _regex(pattern, False).fullmatch(s) is not None


def fits_strict(pattern, s):
    if pattern == "*":
        return True
    return _regex(pattern, True).fullmatch(s) is not None
