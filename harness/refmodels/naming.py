"""Reference naming model, written from the documented convention (C11 statement):
Python sources live under <namespace>/<name>_<version>/ derived from the common proto package of
the files to generate (or from the name / namespace overrides; <name> alone when unversioned)."""
import os, re

_VERSION = re.compile(r"^v[0-9]+(p[0-9]+)?((alpha|beta)[0-9]*)?$")


def _valid_module(s):
    return re.sub(r"[^a-z0-9_]", "_", s.lower())


def expected(api, options):
    targets = api.get("file_to_generate") or [f["name"] for f in api["files"]]
    pkgs = [f["package"] for f in api["files"] if f["name"] in targets]
    root = os.path.commonprefix(pkgs).rstrip(".")
    parts = root.split(".")
    version = ""
    for i, p in enumerate(parts):
        if _VERSION.match(p):
            version, parts = p, parts[:i]
            break
    ns, name = [p.lower() for p in parts[:-1]], parts[-1].lower()
    if options.get("name"):
        name = _valid_module("_".join(options["name"].replace("_", " ").split(" ")))
    if options.get("namespace") is not None:
        ns = [_valid_module(x) for x in ".".join(options["namespace"]).split(".") if x] if options["namespace"] else ns
    old = options.get("old_naming")
    leaf = (f"{name}/{version}" if old else f"{name}_{version}") if version else name
    vdir = "/".join(ns + [leaf])
    udir = "/".join(ns + [name])
    return {"root_package": root, "namespace": ns, "name": name, "version": version,
            "versioned_dir": vdir, "unversioned_dir": udir,
            "versioned_import": vdir.replace("/", "."), "unversioned_import": udir.replace("/", ".")}
