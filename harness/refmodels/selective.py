"""Reference closure for selective GAPIC generation (from the C16 statement), on the API model.

closure(api, kept) -> (strict, generous): sets of full type names (no leading dot) of the TARGET package.
strict  = everything reachable from the kept RPCs through request/response, fields (message, enum, map values), nested types
          of kept messages, LRO response/metadata types and resource references (to the message carrying that resource type);
generous = strict plus enclosing messages of anything kept and everything reachable from those.
"""
from .. import model as M


def _index(api):
    msgs, enums, res = {}, set(), {}
    for f in api["files"]:
        for full, m, _ in M.walk_messages(f):
            msgs[full] = (m, f)
            if m.get("resource"):
                res[m["resource"]["type"]] = full
        for full, _e in M.walk_enums(f):
            enums.add(full)
    return msgs, enums, res


def _reach(start, msgs, enums, res, with_parents):
    seen, todo = set(), list(start)
    while todo:
        t = todo.pop()
        if t in seen:
            continue
        if t in enums:
            seen.add(t)
            if with_parents and t.rsplit(".", 1)[0] in msgs:
                todo.append(t.rsplit(".", 1)[0])
            continue
        if t not in msgs:
            continue
        seen.add(t)
        m, f = msgs[t]
        parent = t.rsplit(".", 1)[0]
        if parent in msgs and with_parents:
            todo.append(parent)
        for nm in m.get("nested", []):
            todo.append(f"{t}.{nm['name']}")
        for e in m.get("enums", []):
            todo.append(f"{t}.{e['name']}")
        for fld in m["fields"]:
            tn = fld.get("type_name") or (fld.get("map_value") or {}).get("type_name")
            if tn:
                todo.append(tn.lstrip("."))
            ref = fld.get("ref")
            if ref:
                rt = ref.get("type") or ref.get("child_type")
                if rt in res:
                    todo.append(res[rt])
    return seen


def closure(api, kept):
    """kept: [(file, service, method)] model triples"""
    msgs, enums, res = _index(api)
    start = []
    for f, s, m in kept:
        start += [m["input"].lstrip("."), m["output"].lstrip(".")]
        if m.get("lro"):
            for k in ("response", "metadata"):
                n = m["lro"].get(k)
                if n:
                    start.append(n if "." in n else f"{f['package']}.{n}")
    strict = _reach(start, msgs, enums, res, False)
    generous = _reach(list(strict), msgs, enums, res, True)
    return strict, generous


def top_level(api):
    out = set()
    for f in api["files"]:
        for m in f.get("messages", []):
            out.add(f"{f['package']}.{m['name']}")
        for e in f.get("enums", []):
            out.add(f"{f['package']}.{e['name']}")
    return out


def implied(api, kept_keys):
    """RPCs kept although not listed: the polling method of the operation service that a kept extended-operation RPC
    names (google.cloud.operation_service). kept_keys: {(package, service, method)} -> the same with the implied ones added."""
    out = set(kept_keys)
    for f, s, m in M.all_methods(api):
        if (f["package"], s["name"], m["name"]) in kept_keys and m.get("op_service"):
            for f2, s2, m2 in M.all_methods(api):
                if f2["package"] == f["package"] and s2["name"] == m["op_service"] and m2.get("op_polling"):
                    out.add((f2["package"], s2["name"], m2["name"]))
    return out
