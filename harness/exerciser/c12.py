"""C12 — one (word, position) pair on a minimal emitted library."""
import importlib, inspect, json, keyword, urllib.parse

from .base import snake, client_method_name, module_of_file
from .rig import Rig, to_python
from .c06 import header_pairs
from ..strategies import RESERVED

P = "acme.lib.v1."


def sfx(w):
    return w + "_" if w in RESERVED else w


def exercise(ctx):
    from .c01 import import_all
    import_all(ctx)
    word, pos = ctx.inner["word"], ctx.inner["position"]
    f, svc = next(ctx.services())
    m = svc["methods"][0]
    pkg = importlib.import_module(ctx.naming["versioned_import"])
    rig = Rig(ctx)
    Req, Inner = ctx.msgclass(P + "FrobRequest"), ctx.msgclass(P + "Inner")
    PyReq, PyInner = getattr(pkg, "FrobRequest"), getattr(pkg, "Inner")
    path = f"/{f['package']}.{svc['name']}/{m['name']}"
    V = lambda k, msg: ctx.violation(f"{pos}:{k}", f"word {word!r}: {msg}")

    def grpc_call(kind="sync", **kw):
        # m and path are read at call time (the twin position switches methods)
        client = rig.client(f, svc, kind)
        meth = getattr(client, client_method_name(m["name"]), None)
        if meth is None:
            V("method-missing", f"client has no method {client_method_name(m['name'])}")
            return None
        rig.grpc.respond = lambda rec: b""
        rig.grpc.take()
        if kind == "sync":
            meth(**kw)
        else:
            async def go():
                await meth(**kw)
            rig.run(go())
        calls = rig.grpc.take()
        if len(calls) != 1 or calls[0]["method"] != path:
            V("rpc-path", f"calls {[c['method'] for c in calls]}, expected [{path}]")
            return None
        return calls[0]

    def rest_call(**kw):
        client = rig.client(f, svc, "rest")
        rig.http.respond = lambda rec: (200, "{}", {})
        rig.http.take()
        getattr(client, client_method_name(m["name"]))(**kw)
        calls = rig.http.take()
        if len(calls) != 1:
            V("rest-count", f"{len(calls)} HTTP requests")
            return None
        return calls[0]

    try:
        if pos in ("field", "flat-param", "http-var", "routing-explicit"):
            py = PyReq()
            if not hasattr(py, sfx(word)):
                V("attr", f"FrobRequest has no attribute {sfx(word)!r}")
                return
            setattr(py, sfx(word), "items/v1" if pos != "field" else "val")
            seen = Req.FromString(PyReq.serialize(py))
            if getattr(seen, word) != ("items/v1" if pos != "field" else "val"):
                V("wire-name", f"value set through {sfx(word)!r} does not arrive in proto field {word!r}")
            keys = json.loads(PyReq.to_json(py, including_default_value_fields=False))
            from ..model import to_json_name
            if to_json_name(word) not in keys:
                V("json-key", f"JSON keys {sorted(keys)} lack {to_json_name(word)!r}")
        if pos == "nested-field":
            py = PyInner()
            setattr(py, sfx(word), 7)
            if getattr(Inner.FromString(PyInner.serialize(py)), word) != 7:
                V("wire-name", "nested field value does not arrive under the proto name")
        if pos in ("flat-param", "flat-dotted-leaf", "flat-dotted-nonleaf", "dep-flat-dotted-nonleaf"):
            param = {"flat-param": sfx(word), "flat-dotted-leaf": sfx(word), "flat-dotted-nonleaf": "plain", "dep-flat-dotted-nonleaf": "plain"}[pos]
            for kind in ("sync", "async"):
                client = rig.client(f, svc, kind)
                sig = inspect.signature(getattr(client, client_method_name(m["name"])))
                if param not in sig.parameters:
                    V("param", f"{kind} method parameters {list(sig.parameters)} lack {param!r}")
                    continue
                c = grpc_call(kind, **{param: "pv"})
                if c is None:
                    continue
                seen = Req.FromString(c["requests"][0])
                got = {"flat-param": lambda: getattr(seen, word), "flat-dotted-leaf": lambda: getattr(seen.inner, word),
                       "flat-dotted-nonleaf": lambda: getattr(seen, word).plain,
                       "dep-flat-dotted-nonleaf": lambda: getattr(seen.dep, word).plain}[pos]()
                if got != "pv":
                    V("flat-wire", f"{kind}: keyword {param}='pv' arrived as {str(seen)!r}")
        if pos in ("http-var", "http-var-dotted-leaf", "http-var-dotted-nonleaf", "http-body", "routing-implicit-dotted", "rpc-name", "rpc-name-transport",
                   "dep-http-var"):
            r = Req()
            if pos == "dep-http-var":
                setattr(r.dep, word, "items/i1")
                var = f"dep.{word}"
            elif pos == "http-var":
                setattr(r, word, "items/i1")
                var = word
            elif pos == "http-var-dotted-leaf":
                setattr(r.inner, word, "items/i1")
                var = f"inner.{word}"
            elif pos in ("http-var-dotted-nonleaf", "routing-implicit-dotted"):
                getattr(r, word).plain = "items/i1"
                var = f"{word}.plain"
            else:
                r.plain = "items/i1"
                var = "plain"
                if pos == "http-body":
                    getattr(r, word).plain = "in-body"
            pyreq = to_python(ctx, P + "FrobRequest", r)
            c = rest_call(request=pyreq)
            if c is not None:
                want_path = "/v1/items/i1" + (":frob" if pos == "http-var-dotted-nonleaf" else "/x" if pos == "routing-implicit-dotted" else "")
                if c["path"] != want_path:
                    V("http-path", f"REST path {c['raw_path']!r}, expected {want_path!r}")
                if pos == "http-body":
                    body = json.loads(c["body"].decode() or "{}")
                    if body != {"plain": "in-body"}:
                        V("http-body", f"REST body {body}, expected the {word!r} field's JSON {{'plain': 'in-body'}}")
                if pos == "http-var-dotted-nonleaf":
                    body = json.loads(c["body"].decode() or "{}")
                    if any(k not in ("plain", "inner", __import__("harness.model", fromlist=["x"]).to_json_name(word)) for k in body):
                        V("http-body-keys", f"REST body keys {sorted(body)} are not proto JSON names")
                hp = header_pairs(list(c["headers"].items()), "rest")
                if hp is None or dict(hp[1]) != {var: "items/i1"}:
                    V("rest-routing-key", f"REST routing header {hp[0] if hp else None!r}, expected {var}=items/i1")
            for kind in ("sync", "async"):
                c = grpc_call(kind, request=pyreq)
                if c is not None:
                    hp = header_pairs(c["metadata"], kind)
                    if hp is None or dict(hp[1]) != {var: "items/i1"}:
                        V("routing-key", f"{kind} routing header {hp[0] if hp else None!r}, expected {var}=items/i1")
                    if Req.FromString(c["requests"][0]) != r:
                        V("wire-request", f"{kind}: request changed on the wire")
        if pos in ("routing-explicit", "dep-routing-explicit"):
            r = Req()
            setattr(r.dep if pos == "dep-routing-explicit" else r, word, "items/i9")
            for kind in ("sync", "async"):
                c = grpc_call(kind, request=to_python(ctx, P + "FrobRequest", r))
                if c is not None:
                    hp = header_pairs(c["metadata"], kind)
                    want = {"routing_id": "items/i9", (f"dep.{word}" if pos == "dep-routing-explicit" else word): "items/i9"}
                    if hp is None or dict(hp[1]) != want:
                        V("routing-key", f"{kind} routing header {hp[0] if hp else None!r}, expected {want}")
        if pos == "rest-required-query":
            from ..model import to_json_name
            r = Req(plain="items/i1")
            for given in (False, True):
                if given:
                    setattr(r, word, "val")
                c = rest_call(request=to_python(ctx, P + "FrobRequest", r))
                if c is None:
                    continue
                q = dict(urllib.parse.parse_qsl(c["query"], keep_blank_values=True))
                q.pop("$alt", None)
                want = {to_json_name(word): "val" if given else ""}
                if q != want:
                    V("required-query-name", f"REST query {c['query']!r} for the REQUIRED field {'set' if given else 'left at its default'}: "
                      f"expected exactly {want} (the JSON name of the proto field)")
        if pos == "dep-routing-twin":
            for mi, rname in ((0, "FrobRequest"), (1, "ProbeRequest")):
                m = svc["methods"][mi]
                path = f"/{f['package']}.{svc['name']}/{m['name']}"
                R2 = ctx.msgclass(P + rname)
                r = R2()
                setattr(r.dep, word, "items/i9")
                for kind in ("sync", "async"):
                    c = grpc_call(kind, request=to_python(ctx, P + rname, r))
                    if c is not None:
                        hp = header_pairs(c["metadata"], kind)
                        if hp is None or dict(hp[1]) != {"routing_id": "items/i9"}:
                            V("routing-key", f"{m['name']} {kind}: routing header {hp[0] if hp else None!r}, expected routing_id=items/i9")
                        if R2.FromString(c["requests"][0]) != r:
                            V("wire-request", f"{m['name']} {kind}: request changed on the wire")
            m = svc["methods"][0]
        if pos in ("rpc-name", "rpc-name-transport"):
            name = snake(m["name"])
            exp = name + "_" if keyword.iskeyword(name) else name
            for kind in ("sync", "async", "rest"):
                client = rig.client(f, svc, kind)
                if not callable(getattr(client, exp, None)):
                    V("method-name", f"{kind} client has no method {exp!r} for RPC {m['name']}")
                if exp != name and hasattr(client, name + "__"):
                    V("method-name", f"{kind} client mangles the name twice")
        if pos in ("file-name", "module-collision", "pp-dep-same-module", "pp-dep-reserved-module"):
            base = f["name"].rsplit("/", 1)[-1][:-6]
            mod = base + "_" if (keyword.iskeyword(base) or base in ("metadata", "retry", "timeout", "request")) else base
            if pos == "file-name":
                try:
                    tm = importlib.import_module(f"{ctx.naming['versioned_import']}.types.{mod}")
                except ModuleNotFoundError:
                    V("types-module", f"no types module {mod!r} for proto file {f['name']}")
                    return
                if not hasattr(tm, "FrobRequest"):
                    V("types-module", f"types module {mod} lacks FrobRequest")
            c = grpc_call("sync", request=PyReq(plain="x"))
            if pos in ("module-collision", "pp-dep-same-module", "pp-dep-reserved-module") and c is not None:
                r = Req(plain="y")
                r.dep.SetInParent()
                c2 = grpc_call("sync", dep=getattr(to_python(ctx, P + "FrobRequest", r), "dep"))
                if c2 is not None and not Req.FromString(c2["requests"][0]).HasField("dep"):
                    V("collision-wire", "flattened dependency-typed field lost on the wire")
    except Exception as e:
        import traceback
        V("raised", f"{type(e).__name__}: {str(e)[:300]} | {traceback.format_exc()[-700:]}")
