"""C16 — surface and behaviour of a selectively generated library."""
import copy, importlib

from .base import client_method_name, module_of_file, snake
from .c02 import find_class
from .. import model as M


_LOOP = {}


def internal_calls(ctx, f, s, cls, unlisted):
    import grpc
    from google.longrunning import operations_pb2
    from . import servers, values
    from .rig import to_python
    todo = [m for m in unlisted if not m.get("cs") and not m.get("ss") and not m.get("op_service")]
    if not todo:
        return
    if "srv" not in _LOOP:
        _LOOP["srv"] = servers.GrpcLoop(servers.arities_from_fds(ctx.fds))
        ctx.on_close(_LOOP["srv"].stop)
        _LOOP["ch"] = grpc.insecure_channel(_LOOP["srv"].addr)
        ctx.on_close(_LOOP["ch"].close)
    srv = _LOOP["srv"]
    classes = values.classes_of(ctx.pool)
    client = cls(transport=cls.get_transport_class("grpc")(channel=_LOOP["ch"]))
    for m in todo[:3]:
        path = f"/{f['package']}.{s['name']}/{m['name']}"
        is_op = m["output"] == ".google.longrunning.Operation"
        reply = (operations_pb2.Operation(name="operations/x", done=False) if is_op else classes(ctx.descriptor(m["output"]))()).SerializeToString()
        srv.respond = lambda rec: reply
        srv.take()
        try:
            getattr(client, "_" + client_method_name(m["name"]))(request=to_python(ctx, m["input"], classes(ctx.descriptor(m["input"]))()))
        except Exception as e:
            ctx.violation("internal-call-raised", f"{cls.__name__}._{client_method_name(m['name'])}: {type(e).__name__}: {str(e)[:200]}")
            continue
        calls = [c["method"] for c in srv.take()]
        ctx.count("internal_calls")
        if calls[:1] != [path]:
            ctx.violation("internal-call-path", f"{cls.__name__}._{client_method_name(m['name'])} reached {calls}, expected {path}")


def exercise(ctx):
    from .c01 import import_all
    import_all(ctx)
    mode = ctx.inner["mode"]
    kept = {tuple(k) for k in ctx.inner["kept"]}
    # types
    for full in ctx.inner["must_have"]:
        fm = next(f for f in ctx.api["files"] if any(x == full for x, _m, _p in M.walk_messages(f)) or any(x == full for x, _e in M.walk_enums(f)))
        if find_class(ctx, full, fm) is None:
            ctx.violation("type-missing", f"{full} is reachable from the listed RPCs but absent from the {mode}-mode library")
    for full in ctx.inner["must_not"]:
        fm = next(f for f in ctx.api["files"] if full.startswith(f["package"] + ".") and (any(x == full for x, _m, _p in M.walk_messages(f)) or any(x == full for x, _e in M.walk_enums(f))))
        try:
            present = find_class(ctx, full, fm) is not None
        except ModuleNotFoundError:
            present = False
        if present:
            ctx.violation("type-not-omitted", f"{full} is not reachable from any listed RPC (nor from an enclosing message of a kept type) but is present")
    ctx.count("types_checked", len(ctx.inner["must_have"]) + len(ctx.inner["must_not"]))
    # services and methods
    kept_api = copy.deepcopy(ctx.api)
    targets = ctx.api.get("file_to_generate")
    for f in kept_api["files"]:
        if targets and f["name"] not in targets:
            continue
        pkg = importlib.import_module(module_of_file(ctx, f))
        new_svcs = []
        for s in f.get("services", []):
            listed = [m for m in s["methods"] if (f["package"], s["name"], m["name"]) in kept]
            unlisted = [m for m in s["methods"] if m not in listed]
            plain, base = getattr(pkg, s["name"] + "Client", None), getattr(pkg, "Base" + s["name"] + "Client", None)
            aplain, abase = getattr(pkg, s["name"] + "AsyncClient", None), getattr(pkg, "Base" + s["name"] + "AsyncClient", None)
            if mode == "omit":
                if not listed:
                    if plain is not None or base is not None:
                        ctx.violation("service-not-omitted", f"service {s['name']} has no listed RPC but a client class exists")
                    continue
                if plain is None or aplain is None:
                    ctx.violation("client-missing", f"service {s['name']} has listed RPCs but no {s['name']}Client / AsyncClient")
                    continue
                for cls in (plain, aplain):
                    for m in listed:
                        # an RPC that starts an extended operation is offered by the asyncio client as <rpc>_unary only
                        n = client_method_name(m["name"]) + ("_unary" if m.get("op_service") and cls is aplain else "")
                        if not callable(getattr(cls, n, None)):
                            ctx.violation("listed-rpc-missing", f"{cls.__name__} lacks listed RPC {m['name']}")
                    for m in unlisted:
                        n = client_method_name(m["name"])
                        if any(hasattr(cls, x) for x in (n, "_" + n, n + "_unary", "_" + n + "_unary")):
                            ctx.violation("unlisted-rpc-present", f"{cls.__name__} still has unlisted RPC {m['name']}")
                s2 = dict(s, methods=listed)
                new_svcs.append(s2)
            else:
                want_base = bool(unlisted)
                cls, acls = (base, abase) if want_base else (plain, aplain)
                if cls is None or acls is None:
                    ctx.violation("internal-client-name", f"service {s['name']} with {len(unlisted)} unlisted RPC(s): expected "
                                  f"{'Base' if want_base else ''}{s['name']}Client and its asyncio twin; found plain={plain is not None} base={base is not None} "
                                  f"async plain={aplain is not None} async base={abase is not None}")
                    continue
                if (plain is not None) == want_base and (base is not None) == want_base and False:
                    pass
                if want_base and plain is not None:
                    ctx.violation("internal-client-name", f"service {s['name']} has unlisted RPCs but still exports {s['name']}Client")
                for c in (cls, acls):
                    def entry(m, c=c):
                        # an RPC that starts an extended operation is offered by the asyncio client as <rpc>_unary only
                        n = client_method_name(m["name"])
                        return n + "_unary" if m.get("op_service") and c is acls else n
                    for m in listed:
                        if not callable(getattr(c, entry(m), None)):
                            ctx.violation("listed-rpc-missing", f"{c.__name__} lacks listed RPC {m['name']}")
                    for m in unlisted:
                        n = entry(m)
                        if not callable(getattr(c, "_" + n, None)):
                            ctx.violation("internal-rpc-missing", f"{c.__name__} lacks internal method _{n} for unlisted RPC {m['name']}")
                        if hasattr(c, n):
                            ctx.violation("internal-rpc-public", f"{c.__name__} exposes unlisted RPC {m['name']} under its public name")
                        # every entry point of the RPC is internal (extended-operation RPCs have a second one, <rpc>_unary)
                        if hasattr(c, client_method_name(m["name"]) + "_unary"):
                            ctx.violation("internal-rpc-public", f"{c.__name__} exposes unlisted RPC {m['name']} as {client_method_name(m['name'])}_unary")
                # internal methods still work: an unlisted RPC is called through its `_name` on the sync client
                # (LRO ones need what the transport provides for them although no public LRO method is left)
                internal_calls(ctx, f, s, cls, unlisted)
            ctx.count("services_checked")
        f["services"] = new_svcs
    # kept RPCs behave as specified (C03's observation on the selective library)
    if mode == "omit":
        from . import c03
        sub = copy.copy(ctx)
        sub.api = kept_api
        sub.services = lambda: ((f, s) for f in kept_api["files"] if not targets or f["name"] in targets for s in f.get("services", []))
        # RPCs that start an extended operation build a client of the operation service with the caller's credentials
        # (none on a loopback channel): their call behaviour is not exercised here
        for f_ in kept_api["files"]:
            for s_ in f_.get("services", []):
                s_["methods"] = [m_ for m_ in s_["methods"] if not m_.get("op_service")]
        saved = ctx.violations
        c03.exercise.__globals__["import_all_done"] = True
        c03.exercise(sub)
