"""Hypothesis strategies for message valuations, derived from a message DESCRIPTOR of the input pool
(DESIGN 4.3). Values are dynamic messages of the reference decoder's classes."""
import math
from hypothesis import strategies as st
from google.protobuf import message_factory
from google.protobuf.descriptor import FieldDescriptor as FD

INT_RANGES = {
    FD.TYPE_INT32: (-2 ** 31, 2 ** 31 - 1), FD.TYPE_SINT32: (-2 ** 31, 2 ** 31 - 1), FD.TYPE_SFIXED32: (-2 ** 31, 2 ** 31 - 1),
    FD.TYPE_INT64: (-2 ** 63, 2 ** 63 - 1), FD.TYPE_SINT64: (-2 ** 63, 2 ** 63 - 1), FD.TYPE_SFIXED64: (-2 ** 63, 2 ** 63 - 1),
    FD.TYPE_UINT32: (0, 2 ** 32 - 1), FD.TYPE_FIXED32: (0, 2 ** 32 - 1),
    FD.TYPE_UINT64: (0, 2 ** 64 - 1), FD.TYPE_FIXED64: (0, 2 ** 64 - 1),
}

TEXT = st.one_of(
    st.sampled_from(["", "a", "x y", "shelves/s1", "ä/ö", "a&b=c", "100%", "q?x#y", "plus+sign", "é中", "line\nbreak", "tab\t", "'quote\"", "a/b/c", "."]),
    st.text(alphabet=st.characters(min_codepoint=32, max_codepoint=0x2fff, exclude_categories=["Cs"]), max_size=12))
BYTES = st.one_of(st.sampled_from([b"", b"\x00", b"\xff\xfe", b"abc"]), st.binary(max_size=10))


def scalar(fd, nonzero=False, json_safe=False):
    t = fd.type
    if t in INT_RANGES:
        lo, hi = INT_RANGES[t]
        s = st.one_of(st.sampled_from([0, 1, lo, hi, -1 if lo < 0 else 2]), st.integers(lo, hi), st.integers(max(lo, -100), min(hi, 100)))
        return s.filter(lambda v: v != 0) if nonzero else s
    if t == FD.TYPE_BOOL:
        return st.just(True) if nonzero else st.booleans()
    if t == FD.TYPE_STRING:
        return TEXT.filter(lambda v: v != "") if nonzero else TEXT
    if t == FD.TYPE_BYTES:
        return BYTES.filter(lambda v: v != b"") if nonzero else BYTES
    if t == FD.TYPE_DOUBLE:
        s = st.one_of(st.sampled_from([0.0, 1.5, -2.25, 1e300, 5e-324] + ([] if json_safe else [math.inf, -math.inf])),
                      st.floats(allow_nan=False, allow_infinity=not json_safe))
        return s.filter(lambda v: v != 0) if nonzero else s
    if t == FD.TYPE_FLOAT:
        if json_safe:     # json_format refuses the shortest repr of float32 values next to FLT_MAX
            s = st.one_of(st.sampled_from([0.0, 1.5, -2.25, 9.999999680285692e+37]), st.floats(min_value=-9.999999680285692e+37, max_value=9.999999680285692e+37, allow_nan=False, width=32))
        else:
            s = st.one_of(st.sampled_from([0.0, 1.5, -2.25, 3.0e38, math.inf, -math.inf]),
                          st.floats(allow_nan=False, allow_infinity=True, width=32))
        return s.filter(lambda v: v != 0) if nonzero else s
    if t == FD.TYPE_ENUM:
        nums = [v.number for v in fd.enum_type.values]
        if nonzero:
            nz = [n for n in nums if n != 0]
            return st.sampled_from(nz or nums)
        return st.sampled_from(nums)
    raise ValueError(f"not a scalar type: {t}")


# -- well-known types need values their JSON mapping accepts -----------------

def _wkt(desc, cls, pool, depth, json_safe):
    n = desc.full_name
    if n == "google.protobuf.Timestamp":
        return st.builds(lambda s, ns: cls(seconds=s, nanos=ns),
                         st.one_of(st.sampled_from([0, 1, -62135596800, 253402300799]), st.integers(-62135596800, 253402300799)),
                         st.one_of(st.just(0), st.integers(0, 999999999)))
    if n == "google.protobuf.Duration":
        def mk(s, ns):
            if s < 0:
                ns = -ns
            return cls(seconds=s, nanos=ns)
        return st.builds(mk, st.integers(-315576000000, 315576000000), st.integers(0, 999999999))
    if n == "google.protobuf.FieldMask":
        return st.builds(lambda ps: cls(paths=ps), st.lists(st.sampled_from(["name", "display_name", "a.b", "labels", "create_time"]), max_size=3, unique=True))
    if n == "google.protobuf.Any":
        from google.protobuf import duration_pb2, empty_pb2, timestamp_pb2
        def mk(i):
            a = cls()
            if i == 0:
                return a
            inner = [empty_pb2.Empty(), timestamp_pb2.Timestamp(seconds=5), duration_pb2.Duration(seconds=3, nanos=1)][i - 1]
            a.type_url = "type.googleapis.com/" + inner.DESCRIPTOR.full_name
            a.value = inner.SerializeToString()
            return a
        return st.builds(mk, st.integers(0 if not json_safe else 1, 3))
    if n in ("google.protobuf.Struct", "google.protobuf.Value", "google.protobuf.ListValue"):
        from google.protobuf import json_format
        leaf = st.one_of(st.none(), st.booleans(), st.integers(-1000, 1000).map(float), st.sampled_from([1.5, -0.25]),
                         st.sampled_from(["", "s", "x y", "é"]))
        tree = st.recursive(leaf, lambda ch: st.one_of(st.lists(ch, max_size=2), st.dictionaries(st.sampled_from(["a", "b", "k 1"]), ch, max_size=2)), max_leaves=5)
        if n.endswith("Struct"):
            src = st.dictionaries(st.sampled_from(["a", "b", "k 1"]), tree, max_size=3)
        elif n.endswith("ListValue"):
            src = st.lists(tree, max_size=3)
        else:
            src = tree
        return src.map(lambda v: json_format.ParseDict(v, cls()))
    return None


def _leaf_wkt(desc):
    return desc.full_name in ("google.protobuf.Timestamp", "google.protobuf.Duration", "google.protobuf.FieldMask",
                              "google.protobuf.Any", "google.protobuf.Struct", "google.protobuf.Value",
                              "google.protobuf.ListValue")


def message(desc, pool_classes, depth=0, max_depth=3, json_safe=False, full=False):
    """Strategy of dynamic message instances of `desc`. pool_classes: callable descriptor -> class.
    full=True: every field set (used where the caller wants all fields non-default)."""
    cls = pool_classes(desc)
    special = _wkt(desc, cls, pool_classes, depth, json_safe)
    if special is not None:
        return special

    @st.composite
    def build(draw):
        m = cls()
        oneof_pick = {}
        for o in desc.oneofs:
            real = [f for f in o.fields]
            if len(real) == 1 and real[0].has_presence and o.name == "_" + real[0].name:
                continue        # synthetic oneof of a proto3 optional field
            oneof_pick[o.name] = draw(st.sampled_from([None] + [f.name for f in real])) if not full else draw(st.sampled_from([f.name for f in real]))
        for f in desc.fields:
            o = f.containing_oneof
            if o is not None and o.name in oneof_pick:
                if oneof_pick[o.name] != f.name:
                    continue
                mode = 2
            else:
                mode = 2 if full else draw(st.sampled_from([0, 1, 2, 2]))   # 0 absent, 1 default-valued, 2 non-default
            if mode == 0:
                continue
            is_map = f.message_type is not None and f.message_type.GetOptions().map_entry
            if is_map:
                if mode == 1:
                    continue
                kf, vf = f.message_type.fields_by_name["key"], f.message_type.fields_by_name["value"]
                n = draw(st.integers(1, 3))
                for _ in range(n):
                    k = draw(scalar(kf, json_safe=json_safe))
                    if vf.message_type is not None:
                        if depth >= max_depth and not _leaf_wkt(vf.message_type):
                            getattr(m, f.name)[k].SetInParent()
                        else:
                            getattr(m, f.name)[k].CopyFrom(draw(message(vf.message_type, pool_classes, depth + 1, max_depth, json_safe)))
                    else:
                        getattr(m, f.name)[k] = draw(scalar(vf, json_safe=json_safe))
            elif f.label == FD.LABEL_REPEATED:
                if mode == 1:
                    continue
                n = draw(st.integers(1, 3))
                for _ in range(n):
                    if f.message_type is not None:
                        if depth >= max_depth and not _leaf_wkt(f.message_type):
                            getattr(m, f.name).add()
                        else:
                            getattr(m, f.name).add().CopyFrom(draw(message(f.message_type, pool_classes, depth + 1, max_depth, json_safe)))
                    else:
                        getattr(m, f.name).append(draw(scalar(f, json_safe=json_safe)))
            elif f.message_type is not None:
                if mode == 1 or (depth >= max_depth and not _leaf_wkt(f.message_type)):
                    if f.message_type.full_name in ("google.protobuf.Value",) and json_safe:
                        continue      # a Value without a kind has no JSON form
                    if f.message_type.full_name == "google.protobuf.Any" and json_safe:
                        continue
                    getattr(m, f.name).SetInParent()
                else:
                    getattr(m, f.name).CopyFrom(draw(message(f.message_type, pool_classes, depth + 1, max_depth, json_safe)))
            else:
                if mode == 1:
                    if f.has_presence:
                        setattr(m, f.name, f.default_value)   # explicit presence with the default value
                    continue
                setattr(m, f.name, draw(scalar(f, nonzero=True, json_safe=json_safe)))
        return m
    return build()


def classes_of(pool):
    def get(desc):
        return message_factory.GetMessageClass(desc)
    return get
