"""C15 (import side) — every client class / method named by gapic_metadata.json exists under exactly that name."""
import glob, importlib, json, os


def exercise(ctx):
    from .c01 import import_all
    import_all(ctx)
    paths = glob.glob(os.path.join(ctx.out, "**", "gapic_metadata.json"), recursive=True)
    if len(paths) != 1:
        ctx.violation("metadata-file", f"{len(paths)} gapic_metadata.json files emitted")
        return
    md = json.load(open(paths[0]))
    try:
        pkg = importlib.import_module(md.get("libraryPackage", ""))
    except Exception as e:
        ctx.violation("library-package", f"libraryPackage {md.get('libraryPackage')!r} is not importable: {e}")
        return
    from .base import module_of_file
    home = {s["name"]: importlib.import_module(module_of_file(ctx, f)) for f, s in ctx.services()}
    for sname, svc in md.get("services", {}).items():
        for kind, cl in svc.get("clients", {}).items():
            # a service of a proto sub-package has its clients in the library's sub-package of that name (the metadata file
            # has one libraryPackage; where in it the class lives is not part of the statement)
            cls = getattr(pkg, cl.get("libraryClient", ""), None) or getattr(home.get(sname), cl.get("libraryClient", ""), None)
            if cls is None or not isinstance(cls, type):
                ctx.violation("client-class", f"service {sname} client kind {kind}: {cl.get('libraryClient')!r} is not a class of {pkg.__name__}")
                continue
            for rpc, ms in cl.get("rpcs", {}).items():
                for mname in ms.get("methods", []):
                    if not callable(getattr(cls, mname, None)):
                        ctx.violation("client-method", f"{sname}/{kind}: RPC {rpc} is mapped to {cls.__name__}.{mname}, which does not exist")
                    ctx.count("methods_resolved")
