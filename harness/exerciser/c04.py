"""C04 — REST calls transcode each request exactly as its google.api.http rule prescribes."""
import json, urllib.parse
from hypothesis import strategies as st
from google.protobuf import json_format
from google.protobuf.descriptor import FieldDescriptor as FD

from .base import Fail, forall, client_method_name
from . import values
from .rig import Rig, to_python, to_bytes, python_class
from .c02 import check_json_keys
from .c06 import header_pairs, get_path, set_string
from ..refmodels import transcoding as T, routing as R, paging as P
from .. import model as M

# characters a path segment may carry without running into URL syntax that the HTTP library (not the
# generator) is responsible for: no '/', '?', '#', '%'
SEG = st.sampled_from(["s1", "my-proj", "a b", "x&y", "k=v", "a+b", "ü", "中", "~.", "A_B", "0", "x:y", "semi;colon", "at@sign"])


@st.composite
def var_value(draw, sub):
    out = []
    for s in sub:
        if s == "*":
            out.append(draw(SEG))
        elif s == "**":
            out.extend(draw(st.lists(SEG, min_size=1, max_size=2)))
        else:
            out.append(s)
    return "/".join(out)


def enum_encoding_ok(obj, desc, numeric, path=""):
    """every enum value inside a JSON object for desc is a name (numeric off) or a number (numeric on)."""
    if desc.full_name.startswith("google.protobuf.") or not isinstance(obj, dict):
        return None
    names = {f.json_name: f for f in desc.fields}
    for k, v in obj.items():
        f = names.get(k)
        if f is None:
            continue
        vals = v if isinstance(v, list) else [v]
        if f.message_type is not None and f.message_type.GetOptions().map_entry:
            vf = f.message_type.fields_by_name["value"]
            vals = list(v.values()) if isinstance(v, dict) else []
            f = vf
        for x in vals:
            if f.enum_type is not None and f.enum_type.full_name != "google.protobuf.NullValue":
                if numeric != isinstance(x, int):
                    return f"{path}{k}={x!r}"
            elif f.message_type is not None:
                r = enum_encoding_ok(x, f.message_type, numeric, path + k + ".")
                if r:
                    return r
    return None


def exercise(ctx):
    from .c01 import import_all
    import_all(ctx)
    rig = Rig(ctx)
    classes = values.classes_of(ctx.pool)
    n = int(ctx.inner.get("n", 10))
    numeric = bool(ctx.options.get("numeric_enums"))
    for f, svc in ctx.services():
        client = rig.client(f, svc, "rest")
        for m in svc["methods"]:
            in_desc, out_desc = ctx.descriptor(m["input"]), ctx.descriptor(m["output"])
            name = client_method_name(m["name"])
            meth = getattr(client, name, None)
            if meth is None:
                ctx.violation("method-missing", f"REST client has no method {name}")
                continue
            binds = T.bindings(m["http"]) if m.get("http") else []
            lro = m.get("lro") is not None
            void = m["output"] == ".google.protobuf.Empty"
            path_ = f"{svc['name']}.{m['name']}"
            if not binds or m.get("cs"):
                # no binding (or client streaming): the REST transport must refuse, nothing may be sent
                rig.http.take()
                try:
                    if m.get("cs"):
                        r = meth(requests=iter([to_python(ctx, m["input"], classes(in_desc)())]))
                    else:
                        r = meth(request=to_python(ctx, m["input"], classes(in_desc)()))
                    if m.get("ss") and r is not None:
                        list(r)
                    ctx.violation("no-binding-accepted", f"{path_}: no usable HTTP binding but the REST call did not raise NotImplementedError")
                except NotImplementedError:
                    ctx.cls("no-binding: NotImplementedError")
                except Exception as e:
                    ctx.violation("no-binding-wrong-error", f"{path_}: expected NotImplementedError, got {type(e).__name__}: {str(e)[:200]}")
                if rig.http.take():
                    ctx.violation("no-binding-sent", f"{path_}: a request was sent although the method has no HTTP binding")
                continue
            if lro:
                ctx.cls("lro over REST (needs Operations mixin rules; exercised by C08)")
                continue
            paged = P.classify(in_desc, out_desc)[0] and not m.get("ss")
            bvars = [T.variables(b["uri"]) for b in binds]
            model_msg = M.find_message(ctx.api, m["input"]) or {"fields": []}
            req_names = {x["name"] for x in model_msg["fields"] if x.get("required")}
            req_fields = [fd for fd in in_desc.fields if fd.name in req_names]

            @st.composite
            def scenario(draw, in_desc=in_desc, out_desc=out_desc, binds=binds, bvars=bvars, m=m):
                req = draw(values.message(in_desc, classes, max_depth=2, json_safe=True))
                none = all(bvars) and draw(st.integers(0, 7)) == 0
                b = draw(st.integers(0, len(binds) - 1))
                for i, vs in enumerate(bvars):
                    segs = dict((s[1], s[2]) for s in T.parse_uri(binds[i]["uri"])[0] if s[0] == "var")
                    for v in vs:
                        if none or (i != b and v not in bvars[b]):
                            set_string(req, v, "")          # other bindings' variables stay empty: they do not match
                        elif i == b:
                            set_string(req, v, draw(var_value(segs[v])))
                reps = draw(st.lists(values.message(out_desc, classes, max_depth=2, json_safe=True), max_size=3)) if m.get("ss") \
                    else [draw(values.message(out_desc, classes, max_depth=2, json_safe=True))]
                return req, none, reps, draw(st.booleans())

            def one(sc, m=m, in_desc=in_desc, out_desc=out_desc, binds=binds, bvars=bvars, meth=meth, path_=path_, paged=paged, void=void, req_fields=req_fields):
                req, none, reps, unknown = sc
                dyn_in, dyn_out = classes(in_desc), classes(out_desc)
                if paged:
                    for r in reps:
                        r.next_page_token = ""

                # a streamed reply of a type that is not proto-plus is parsed by api-core's ResponseIterator, which does not
                # tolerate unknown fields there: that is the runtime library's behaviour, not something the generator emits
                tolerant = not (m.get("ss") and not python_class(ctx, m["output"])[1])

                def reply_json(r):
                    d = json.loads(json_format.MessageToJson(r))
                    if unknown and tolerant and isinstance(d, dict):
                        d["unknownFieldFromANewerServer"] = {"x": [1, "two"]}
                    return d

                def respond(rec):
                    if m.get("ss"):
                        return 200, json.dumps([reply_json(r) for r in reps]), {}
                    return 200, json.dumps(reply_json(reps[0])), {}
                rig.http.respond = respond
                rig.http.take()
                detail = {"rpc": path_, "bindings": binds, "request": str(req)[:500], "none_matching": none}
                try:
                    res = meth(request=to_python(ctx, m["input"], req))
                    if m.get("ss"):
                        got = list(res)
                    elif paged and not void:
                        got = [next(iter(res.pages))]
                    else:
                        got = [res]
                    raised = None
                except Exception as e:
                    import traceback
                    raised, tb = e, traceback.format_exc()[-1500:]
                calls = rig.http.take()
                if none:
                    if calls:
                        raise Fail("sent-without-binding", f"{path_}: the request matches no binding but {len(calls)} HTTP request(s) were sent: "
                                   f"{calls[0]['verb']} {calls[0]['raw_path']}", detail)
                    ctx.cls("none-matching: refused")
                    return
                if raised is not None:
                    raise Fail("call-raised", f"{path_}: {type(raised).__name__}: {str(raised)[:300]}", dict(detail, traceback=tb))
                if len(calls) != 1:
                    raise Fail("request-count", f"{path_}: {len(calls)} HTTP requests for one call", detail)
                c = calls[0]
                detail.update({"verb": c["verb"], "path": c["raw_path"], "body": c["body"][:600].decode("utf-8", "replace")})
                # 1. verb + path instantiate a declared binding whose variables carry the request's values
                chosen, why = None, []
                for i, b in enumerate(binds):
                    if b["verb"].upper() != c["verb"]:
                        why.append(f"binding {i}: verb {b['verb']}")
                        continue
                    caps = T.match_path(b["uri"], c["path"])
                    if caps is None:
                        why.append(f"binding {i}: path does not match {b['uri']}")
                        continue
                    bad = {v: (caps[v], str(get_path(req, v))) for v in bvars[i] if caps[v] != str(get_path(req, v))}
                    if bad:
                        why.append(f"binding {i}: variables (sent, request) differ: {bad}")
                        continue
                    chosen = i
                    break
                if chosen is None:
                    raise Fail("path", f"{path_}: {c['verb']} {c['raw_path']} instantiates none of the declared bindings: {why}", detail)
                b = binds[chosen]
                ctx.cls(f"binding-used:{'primary' if chosen == 0 else 'additional'}")
                ctx.nontrivial(["rest", b["verb"], "star" if b.get("body") == "*" else "field" if b.get("body") else "none", len(bvars[chosen]),
                                any("." in v for v in bvars[chosen]), any("**" in json.dumps(s[2]) for s in T.parse_uri(b["uri"])[0] if s[0] == "var"),
                                chosen > 0, numeric, bool(req_fields)]) if bvars[chosen] and (b.get("body") or c["query"]) else None
                # 2. body
                recon = dyn_in()
                body_obj = None
                if not b.get("body"):
                    if c["body"] not in (b"", b"{}"):
                        raise Fail("body-unexpected", f"{path_}: binding has no body but {len(c['body'])} bytes were sent", detail)
                else:
                    try:
                        body_obj = json.loads(c["body"].decode("utf-8")) if c["body"] else {}
                    except ValueError as e:
                        raise Fail("body-json", f"{path_}: body is not JSON: {e}", detail)
                    target = recon if b["body"] == "*" else getattr(recon, b["body"])
                    tdesc = in_desc if b["body"] == "*" else in_desc.fields_by_name[b["body"]].message_type
                    check_json_keys(body_obj, tdesc)
                    bad = enum_encoding_ok(body_obj, tdesc, numeric)
                    if bad:
                        raise Fail("enum-encoding", f"{path_}: body enum {bad} with rest-numeric-enums={'on' if numeric else 'off'}", detail)
                    try:
                        json_format.Parse(c["body"].decode("utf-8") or "{}", target, descriptor_pool=ctx.pool)
                    except Exception as e:
                        raise Fail("body-parse", f"{path_}: body does not parse as {tdesc.full_name}: {e}", detail)
                    if b["body"] != "*" and c["body"]:
                        target.SetInParent()
                body_leaves = T.leaf_paths(recon)
                # 3. query
                pairs = urllib.parse.parse_qsl(c["query"], keep_blank_values=True, strict_parsing=False, encoding="utf-8")
                alt = [v for k, v in pairs if k == "$alt"]
                if numeric and alt != ["json;enum-encoding=int"]:
                    raise Fail("alt-param", f"{path_}: rest-numeric-enums is on but $alt is {alt}", detail)
                if not numeric and alt:
                    raise Fail("alt-param", f"{path_}: rest-numeric-enums is off but $alt={alt} was sent", detail)
                qrecon = dyn_in()
                query_leaves, defaults_added = set(), []
                for k, v in pairs:
                    if k == "$alt":
                        continue
                    try:
                        leaf = T.apply_param(qrecon, k, v, "query")
                    except T.WireError as e:
                        raise Fail("query-param", f"{path_}: {e}", detail)
                    fd = _leaf_fd(in_desc, leaf)
                    if fd.enum_type is not None and numeric != v.lstrip("-").isdigit():
                        raise Fail("enum-encoding", f"{path_}: query enum {k}={v!r} with rest-numeric-enums={'on' if numeric else 'off'}", detail)
                    if k.split(".")[0] != _camel(leaf.split(".")[0]) and "_" in leaf.split(".")[0]:
                        raise Fail("query-key-name", f"{path_}: query key {k!r} is not the lowerCamel name of {leaf!r}", detail)
                    query_leaves.add(leaf)
                # 4. disjointness
                var_leaves = set(bvars[chosen])
                def overlaps(a, bset):
                    return [x for x in bset if x == a or x.startswith(a + ".") or a.startswith(x + ".")]
                for a in var_leaves:
                    bl = body_leaves
                    if b.get("body") and b["body"] != "*" and a.split(".")[0] == b["body"]:
                        bl = set()      # {book.name=...} with body: "book": the body field is sent whole (usual Update shape), not judged
                    o = overlaps(a, query_leaves) + overlaps(a, bl)
                    if o:
                        raise Fail("duplicated", f"{path_}: path variable {a!r} also travels in {'query' if overlaps(a, query_leaves) else 'body'} as {o}", detail)
                for a in query_leaves:
                    o = overlaps(a, body_leaves)
                    if o:
                        raise Fail("duplicated", f"{path_}: query parameter {a!r} also travels in the body as {o}", detail)
                # 5. required fields that are default-valued still travel
                bound_top = {v.split(".")[0] for v in var_leaves} | ({b["body"]} if b.get("body") and b["body"] != "*" else set())
                if b.get("body") != "*":
                    for fd in req_fields:
                        if fd.name in bound_top or fd.message_type is not None or fd.label == FD.LABEL_REPEATED or fd.enum_type is not None:
                            continue        # the statement covers required *scalar* fields
                        if fd.name not in {l.split(".")[0] for l in query_leaves}:
                            raise Fail("required-missing", f"{path_}: required field {fd.name!r} (not bound to path or body) is absent from the query "
                                       f"{c['query']!r}", detail)
                # 6. reconstruction: body + query + path == request
                recon.MergeFrom(qrecon)
                for v in bvars[chosen]:
                    set_string(recon, v, T.match_path(b["uri"], c["path"])[v])
                T.prune_empty(recon)
                want = dyn_in()
                want.CopyFrom(req)
                T.prune_empty(want)
                if recon != want:
                    # default-valued required fields set presence-less defaults only; explicit presence may differ
                    a = json_format.MessageToDict(recon, preserving_proto_field_name=True)
                    req = want
                    bb = json_format.MessageToDict(req, preserving_proto_field_name=True)
                    a = {k: v for k, v in a.items() if v not in ("", 0, False, "0", 0.0, [], {})}
                    bb = {k: v for k, v in bb.items() if v not in ("", 0, False, "0", 0.0, [], {})}
                    if a != bb:
                        raise Fail("reconstruction", f"{path_}: path+query+body rebuild {str(recon)[:300]!r}, the caller sent {str(req)[:300]!r}", detail)
                # 7. routing header agrees with the reference
                hp = header_pairs(list(c["headers"].items()), path_ + " (rest)")
                if m.get("routing") is not None:
                    exp = R.explicit(m["routing"], lambda p: get_path(req, p))
                else:
                    exp = {v: str(get_path(req, v)) for v in R.implicit(m["http"]["uri"])}
                if (dict(hp[1]) if hp else {}) != exp and not (hp is None and not exp):
                    raise Fail("rest-routing-header", f"{path_}: REST header {hp[0] if hp else None!r} decodes to {dict(hp[1]) if hp else {}}, expected {exp}", detail)
                # 8. reply
                if void and not m.get("ss"):
                    if got != [None]:
                        raise Fail("void-return", f"{path_}: Empty response returned {got!r}", detail)
                    return
                if len(got) != len(reps):
                    raise Fail("reply-count", f"{path_}: received {len(got)} messages, server sent {len(reps)}", detail)
                for g, r in zip(got, reps):
                    back = dyn_out.FromString(to_bytes(g))
                    if back != r:
                        raise Fail("reply-payload", f"{path_}: received {str(back)[:300]!r}, server sent {str(r)[:300]!r}", detail)

            forall(ctx, scenario(), one, n, label=m["name"], shrink=False)
            ctx.count("methods_exercised")
    ctx.sample({"inner_evaluations": ctx.counters.get("inner_evaluations", 0), "methods": ctx.counters.get("methods_exercised", 0), "numeric_enums": numeric})


def _fb():
    from google.api import field_behavior_pb2
    return field_behavior_pb2.field_behavior


def _camel(s):
    from ..model import to_json_name
    return to_json_name(s)


def _leaf_fd(desc, path):
    fd = None
    for seg in path.split("."):
        fd = desc.fields_by_name[seg]
        desc = fd.message_type
    return fd
