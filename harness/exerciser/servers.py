"""Loopback gRPC and HTTP servers with scripted replies; they record what arrives on the wire.

GrpcLoop: one GenericRpcHandler. For every full method name found in the INPUT descriptors (plus the
mixin services of installed packages) a handler of the DECLARED arity with identity (bytes) (de)serialisers.
`respond` is a callable(record) -> bytes | [bytes] | GrpcError; set by the exerciser before each call.
"""
import threading, time
from concurrent import futures

REAL_MONOTONIC = time.monotonic      # captured before any exerciser replaces the clock
from http.server import BaseHTTPRequestHandler, ThreadingHTTPServer

import grpc


class GrpcError(Exception):
    def __init__(self, code, details=""):
        self.code, self.details = code, details


class GrpcLoop:
    def __init__(self, arities):
        """arities: {"/pkg.Svc/Method": (client_streaming, server_streaming)}"""
        self.arities = dict(arities)
        self.calls = []
        self.respond = lambda rec: b""
        self.lock = threading.Lock()
        loop = self

        class H(grpc.GenericRpcHandler):
            def service(self, hcd):
                path = hcd.method
                cs, ss = loop.arities.get(path, (False, False))
                known = path in loop.arities

                def record(reqs, ctx):
                    rec = {"method": path, "known": known, "requests": reqs, "declared": (cs, ss),
                           "metadata": [(k, v) for k, v in ctx.invocation_metadata()],
                           "time_remaining": ctx.time_remaining(), "t_real": REAL_MONOTONIC()}
                    with loop.lock:
                        rec["index"] = len(loop.calls)
                        loop.calls.append(rec)
                    if not known:
                        ctx.abort(grpc.StatusCode.UNIMPLEMENTED, f"unknown method {path}")
                    try:
                        return loop.respond(rec)
                    except GrpcError as e:
                        ctx.abort(e.code, e.details)

                def uu(req, ctx):
                    r = record([req], ctx)
                    return r if isinstance(r, bytes) else r[0]

                def us(req, ctx):
                    r = record([req], ctx)
                    for x in ([r] if isinstance(r, bytes) else r):
                        yield x

                def su(it, ctx):
                    r = record(list(it), ctx)
                    return r if isinstance(r, bytes) else r[0]

                def ss_(it, ctx):
                    r = record(list(it), ctx)
                    for x in ([r] if isinstance(r, bytes) else r):
                        yield x
                if cs and ss:
                    return grpc.stream_stream_rpc_method_handler(ss_)
                if cs:
                    return grpc.stream_unary_rpc_method_handler(su)
                if ss:
                    return grpc.unary_stream_rpc_method_handler(us)
                return grpc.unary_unary_rpc_method_handler(uu)

        self.server = grpc.server(futures.ThreadPoolExecutor(max_workers=8))
        self.server.add_generic_rpc_handlers((H(),))
        self.port = self.server.add_insecure_port("127.0.0.1:0")
        self.server.start()
        self.addr = f"127.0.0.1:{self.port}"

    def take(self):
        with self.lock:
            c, self.calls = self.calls, []
        return c

    def stop(self):
        self.server.stop(0)


class HttpLoop:
    """respond: callable(record) -> (status:int, body:str|bytes, headers:dict)"""

    def __init__(self):
        self.calls = []
        self.respond = lambda rec: (200, "{}", {})
        self.lock = threading.Lock()
        loop = self

        class RH(BaseHTTPRequestHandler):
            protocol_version = "HTTP/1.1"

            def _any(self):
                n = int(self.headers.get("Content-Length") or 0)
                body = self.rfile.read(n) if n else b""
                path, _, query = self.path.partition("?")
                rec = {"verb": self.command, "raw_path": self.path, "path": path, "query": query, "body": body,
                       "headers": {k.lower(): v for k, v in self.headers.items()},
                       "header_list": [(k.lower(), v) for k, v in self.headers.items()]}
                with loop.lock:
                    rec["index"] = len(loop.calls)
                    loop.calls.append(rec)
                try:
                    status, out, hdrs = loop.respond(rec)
                except Exception as e:      # a scripting error must not hang the client
                    status, out, hdrs = 500, '{"error": {"code": 500, "message": "responder failed: %s"}}' % type(e).__name__, {}
                if isinstance(out, str):
                    out = out.encode("utf-8")
                self.send_response(status)
                self.send_header("Content-Type", "application/json")
                self.send_header("Content-Length", str(len(out)))
                for k, v in (hdrs or {}).items():
                    self.send_header(k, v)
                self.end_headers()
                self.wfile.write(out)

            do_GET = do_POST = do_PUT = do_PATCH = do_DELETE = _any

            def log_message(self, *a):
                pass

        self.httpd = ThreadingHTTPServer(("127.0.0.1", 0), RH)
        self.httpd.daemon_threads = True
        self.port = self.httpd.server_port
        self.thread = threading.Thread(target=self.httpd.serve_forever, daemon=True)
        self.thread.start()
        self.endpoint = f"http://127.0.0.1:{self.port}"

    def take(self):
        with self.lock:
            c, self.calls = self.calls, []
        return c

    def stop(self):
        self.httpd.shutdown()
        self.httpd.server_close()


def arities_from_fds(fds):
    out = {}
    for f in fds.file:
        for s in f.service:
            for m in s.method:
                out[f"/{f.package}.{s.name}/{m.name}"] = (m.client_streaming, m.server_streaming)
    return out
