"""Entry of the fresh interpreter that exercises ONE emitted library.
usage: python -m harness.exerciser <casedir>     (PYTHONPATH=/verif; never imports gapic)"""
import importlib, json, os, sys, traceback


def main():
    casedir = sys.argv[1]
    with open(os.path.join(casedir, "case.json")) as fh:
        case = json.load(fh)
    from .base import Ctx, Stop
    ctx = Ctx(case, casedir)
    mod = importlib.import_module(f"harness.exerciser.{case['property'].lower()}")
    try:
        mod.exercise(ctx)
    except Stop:
        pass
    except BaseException:
        ctx.harness_error = traceback.format_exc()
    ctx.close()
    ctx.write()


if __name__ == "__main__":
    if "gapic" in sys.modules:
        raise SystemExit("exerciser must not import gapic")
    main()
    sys.stdout.flush()
    os._exit(0)        # grpc threads must not keep the interpreter alive
