"""C06 — every call carries an x-goog-request-params header that follows AIP-4222."""
import urllib.parse
from hypothesis import strategies as st

from .base import Fail, forall, client_method_name
from . import values
from .rig import Rig, to_python
from ..refmodels import routing as R

SEG = st.sampled_from(["p1", "my-proj", "a b", "x&y", "k=v", "100%", "a+b", "ü", "中", "~.", "A_B", "0", "x"])


@st.composite
def value_for_template(draw, template, cls_hint=None):
    """(value class, string) for a routing path template."""
    key, before, named, after = R.parse_template(template)
    def inst(pattern):
        out = []
        for p in pattern:
            if p == "*":
                out.append(draw(SEG))
            elif p == "**":
                out.extend(draw(st.lists(SEG, max_size=2)))
            else:
                out.append(p)
        return out
    segs = inst(before) + inst(named) + inst(after)
    kind = draw(st.sampled_from(["match", "match", "match", "extended", "prefix", "wrong-literal", "empty", "other"]))
    if kind == "match":
        return kind, "/".join(segs)
    if kind == "extended":
        return kind, "/".join(segs + ["extra", draw(SEG)])
    if kind == "prefix":
        return kind, "/".join(segs[: max(0, len(segs) - 1)])
    if kind == "wrong-literal":
        lits = [i for i, p in enumerate(before + named + after) if p not in ("*", "**")]
        if lits and len(segs) > lits[0]:
            segs = list(segs)
            segs[lits[0]] = segs[lits[0]] + "x"
        return kind, "/".join(segs)
    if kind == "empty":
        return kind, ""
    return kind, draw(st.sampled_from(["zzz", "a/b/c", "/", "projects", "//"]))


def get_path(msg, path):
    cur = msg
    for s in path.split("."):
        cur = getattr(cur, s)
    return cur


def set_string(msg, path, value):
    segs = path.split(".")
    cur = msg
    for s in segs[:-1]:
        cur = getattr(cur, s)
    setattr(cur, segs[-1], value)


def header_pairs(metadata, what):
    hs = [v for k, v in metadata if k.lower() == "x-goog-request-params"]
    if len(hs) > 1:
        raise Fail("header-duplicated", f"{what}: {len(hs)} x-goog-request-params headers: {hs}")
    if not hs:
        return None
    h = hs[0]
    if isinstance(h, bytes):
        h = h.decode("latin-1")
    if any(ord(c) < 0x20 or ord(c) > 0x7e for c in h):
        raise Fail("header-not-ascii", f"{what}: header value is not printable ASCII (not URL-encoded): {h!r}")
    return h, urllib.parse.parse_qsl(h, keep_blank_values=True, strict_parsing=False, encoding="utf-8")


def exercise(ctx):
    from .c01 import import_all
    import_all(ctx)
    rig = Rig(ctx)
    classes = values.classes_of(ctx.pool)
    n = int(ctx.inner.get("n", 12))
    for f, svc in ctx.services():
        for m in svc["methods"]:
            if m.get("cs"):
                ctx.cls("client-streaming (no request to read; not judged)")
                continue
            explicit = m.get("routing") is not None
            variables = R.implicit(m["http"]["uri"]) if (m.get("http") and not explicit) else []
            if not explicit and not variables:
                mode = "none"
            else:
                mode = "explicit" if explicit else "implicit"
            in_desc, out_desc = ctx.descriptor(m["input"]), ctx.descriptor(m["output"])
            path_ = f"/{f['package']}.{svc['name']}/{m['name']}"
            targets = {}       # field path -> list of templates that read it
            if explicit:
                for rp in m["routing"]:
                    targets.setdefault(rp["field"], []).append(rp.get("template"))
            else:
                for v in variables:
                    targets.setdefault(v, []).append(None)
            string_targets = {}
            for p in targets:
                d, fd = in_desc, None
                for seg in p.split("."):
                    fd = d.fields_by_name[seg]
                    d = fd.message_type
                string_targets[p] = fd

            @st.composite
            def scenario(draw, in_desc=in_desc, targets=targets, string_targets=string_targets):
                req = draw(values.message(in_desc, classes, max_depth=2))
                kinds = []
                for p, tpls in targets.items():
                    fd = string_targets[p]
                    if fd.type != fd.TYPE_STRING or fd.label == fd.LABEL_REPEATED:
                        continue
                    tpl = draw(st.sampled_from(tpls))
                    if tpl:
                        k, v = draw(value_for_template(tpl))
                    else:
                        k, v = draw(st.sampled_from([("plain", "shelves/s1"), ("escape", "a b&c=d/é+%"), ("empty", ""), ("plain", "x")]))
                    # members of a oneof along the path would clear each other: last write wins on both sides
                    set_string(req, p, v)
                    kinds.append(k)
                return req, draw(st.sampled_from(["sync", "async"])), kinds

            caller_md, state = [("x-verif-marker", "m1")], {}

            def one(sc, f=f, svc=svc, m=m, mode=mode, in_desc=in_desc, out_desc=out_desc, path_=path_, variables=variables, caller_md=caller_md, state=state):
                req, kind, kinds = sc
                if mode == "explicit":
                    expected = R.explicit(m["routing"], lambda p: get_path(req, p))
                    tclasses = sorted({("none" if not rp.get("template") else "star" if rp["template"].endswith("=*}") else "dstar" if rp["template"].endswith("=**}") else "literal") for rp in m["routing"]})
                    shared = len({R.parse_template(rp["template"])[0] if rp.get("template") else rp["field"] for rp in m["routing"]}) < len(m["routing"])
                    if any(rp.get("template") for rp in m["routing"]) and set(kinds) - {"match"}:
                        ctx.nontrivial(["explicit", tclasses, shared, any("." in rp["field"] for rp in m["routing"]), sorted(set(kinds)), kind])
                elif mode == "implicit":
                    expected = {v: str(get_path(req, v)) for v in variables}
                    if any("." in v for v in variables) or "escape" in kinds:
                        ctx.nontrivial(["implicit", len(variables), any("." in v for v in variables), sorted(set(kinds)), kind])
                else:
                    expected = None
                ctx.cls("mode:" + mode)
                client = rig.client(f, svc, kind)
                meth = getattr(client, client_method_name(m["name"]))
                reply = classes(out_desc)().SerializeToString() if m.get("lro") is None else b""
                rig.grpc.respond = lambda rec: reply
                rig.grpc.take()
                pyreq = to_python(ctx, m["input"], req)
                # a history over calls: every other call hands in the SAME caller-owned metadata list (a Sequence, as annotated)
                state["n"] = state.get("n", 0) + 1
                kwmd = {"metadata": caller_md} if state["n"] % 2 == 0 else {}
                detail = {"rpc": path_, "client": kind, "mode": mode, "request": str(req)[:400], "routing": m.get("routing"), "uri": (m.get("http") or {}).get("uri")}
                try:
                    if kind == "sync":
                        r = meth(request=pyreq, **kwmd)
                        if m.get("ss"):
                            list(r)
                    else:
                        async def go():
                            r = await meth(request=pyreq, **kwmd)
                            if m.get("ss"):
                                [x async for x in r]
                        rig.run(go())
                except Exception as e:
                    import traceback
                    raise Fail("call-raised", f"{path_} ({kind}): {type(e).__name__}: {str(e)[:300]}", dict(detail, traceback=traceback.format_exc()[-1500:]))
                calls = [c for c in rig.grpc.take() if c["method"] == path_]
                if len(calls) != 1:
                    raise Fail("call-count", f"{path_} ({kind}): {len(calls)} calls", detail)
                if caller_md != [("x-verif-marker", "m1")]:
                    raise Fail("caller-metadata-changed", f"{path_} ({kind}): the caller's metadata list is now {caller_md}", detail)
                if kwmd and dict(calls[0]["metadata"]).get("x-verif-marker") != "m1":
                    raise Fail("caller-metadata-lost", f"{path_} ({kind}): the caller's metadata did not reach the server", detail)
                got = header_pairs(calls[0]["metadata"], f"{path_} ({kind})")
                detail["header"] = got[0] if got else None
                detail["expected"] = expected
                if mode == "none":
                    if got is not None and got[1]:
                        raise Fail("header-unexpected", f"{path_} ({kind}): no routing annotation and no path variables, but header {got[0]!r} was sent", detail)
                    return
                if mode == "explicit" and not expected:
                    if got is not None:
                        raise Fail("header-when-nothing-matches", f"{path_} ({kind}): nothing matches, but header {got[0]!r} was sent", detail)
                    return
                if got is None:
                    raise Fail("header-missing", f"{path_} ({kind}): expected pairs {expected}, no header sent", detail)
                pairs = got[1]
                if len(pairs) != len(dict(pairs)):
                    raise Fail("header-key-repeated", f"{path_} ({kind}): a key occurs twice in {got[0]!r}", detail)
                if dict(pairs) != expected:
                    raise Fail("header-pairs", f"{path_} ({kind}): header {got[0]!r} decodes to {dict(pairs)}, expected {expected}", detail)

            forall(ctx, scenario(), one, n, label=m["name"], shrink=False)
            ctx.count("methods_exercised")
    ctx.sample({"inner_evaluations": ctx.counters.get("inner_evaluations", 0), "methods": ctx.counters.get("methods_exercised", 0)})
