"""C18 (call time) — auto-populated UUID4 fields on sync gRPC, asyncio and REST."""
import json, re, uuid
from hypothesis import strategies as st
from google.protobuf import json_format

from .base import Fail, forall, client_method_name
from . import values
from .rig import Rig, to_python
from .c04 import var_value
from .c06 import set_string
from ..refmodels import transcoding as T

CANON = re.compile(r"^[0-9a-f]{8}-[0-9a-f]{4}-4[0-9a-f]{3}-[89ab][0-9a-f]{3}-[0-9a-f]{12}$")


def exercise(ctx):
    from .c01 import import_all
    import_all(ctx)
    rig = Rig(ctx)
    classes = values.classes_of(ctx.pool)
    n = int(ctx.inner.get("n", 6))
    settings = {s["selector"]: s.get("auto_populated_fields") for s in ctx.inner["settings"]}
    transports = ctx.options["transport"].split("+")
    kinds = (["sync", "async"] if "grpc" in transports else []) + (["rest"] if "rest" in transports else [])
    if ctx.options.get("ads"):
        kinds = ["sync"]          # the ads template set has no asyncio client
    seen_ids = set()
    for f, svc in ctx.services():
        for m in svc["methods"]:
            sel = f"{f['package']}.{svc['name']}.{m['name']}"
            fields = settings.get(sel)
            if not fields:
                continue
            in_desc, out_desc = ctx.descriptor(m["input"]), ctx.descriptor(m["output"])
            path_ = f"/{f['package']}.{svc['name']}/{m['name']}"
            presence = {fn: in_desc.fields_by_name[fn].has_presence for fn in fields}
            reply = classes(out_desc)()
            http_ok = bool(m.get("http")) and m.get("lro") is None
            if not [k for k in kinds if k != "rest" or http_ok]:
                ctx.cls("method not callable on the requested transports (REST only, no usable HTTP rule)")
                continue
            uri_vars = T.variables(m["http"]["uri"]) if m.get("http") else []
            segs = dict((s[1], s[2]) for s in T.parse_uri(m["http"]["uri"])[0] if s[0] == "var") if m.get("http") else {}

            @st.composite
            def scenario(draw, in_desc=in_desc, fields=fields):
                req = draw(values.message(in_desc, classes, max_depth=1, json_safe=True))
                for v in uri_vars:
                    set_string(req, v, draw(var_value(segs[v])))
                modes = {}
                for fn in fields:
                    mode = draw(st.sampled_from(["unset", "unset", "empty", "set"]))
                    modes[fn] = mode
                    req.ClearField(fn)
                    if mode == "empty":
                        setattr(req, fn, "")
                    elif mode == "set":
                        setattr(req, fn, draw(st.sampled_from(["caller-value", "not a uuid", "6ba7b810-9dad-11d1-80b4-00c04fd430c8", " "])))
                usable = [k for k in kinds if k != "rest" or http_ok]
                return req, modes, draw(st.sampled_from(usable))

            def one(sc, f=f, svc=svc, m=m, in_desc=in_desc, fields=fields, presence=presence, path_=path_):
                req, modes, kind = sc
                dyn_in = classes(in_desc)
                if any(presence.values()) or len(fields) > 1:
                    ctx.nontrivial(["uuid", sorted(presence.items()), sorted(modes.items()), kind])
                client = rig.client(f, svc, kind)
                meth = getattr(client, client_method_name(m["name"]))
                rig.grpc.respond = lambda rec: reply.SerializeToString() if m.get("lro") is None else b""
                rig.grpc.take()
                detail = {"rpc": path_, "client": kind, "modes": modes, "presence": presence, "request": str(req)[:300]}
                try:
                    if kind == "sync":
                        meth(request=to_python(ctx, m["input"], req))
                        calls = [c for c in rig.grpc.take() if c["method"] == path_]
                        seen = dyn_in.FromString(calls[0]["requests"][0]) if len(calls) == 1 else None
                    elif kind == "async":
                        async def go():
                            await meth(request=to_python(ctx, m["input"], req))
                        rig.run(go())
                        calls = [c for c in rig.grpc.take() if c["method"] == path_]
                        seen = dyn_in.FromString(calls[0]["requests"][0]) if len(calls) == 1 else None
                    else:
                        rig.http.respond = lambda rec: (200, json_format.MessageToJson(reply), {})
                        rig.http.take()
                        res = meth(request=to_python(ctx, m["input"], req))
                        calls = rig.http.take()
                        seen = None
                        if len(calls) == 1:
                            c = calls[0]
                            seen = dyn_in()
                            b = next((b for b in T.bindings(m["http"]) if b["verb"].upper() == c["verb"] and T.match_path(b["uri"], c["path"]) is not None), None)
                            if b is None:
                                raise Fail("rest-binding", f"{path_}: {c['verb']} {c['raw_path']} matches no binding", detail)
                            if b.get("body"):
                                tgt = seen if b["body"] == "*" else getattr(seen, b["body"])
                                json_format.Parse(c["body"].decode() or "{}", tgt, descriptor_pool=ctx.pool)
                            import urllib.parse
                            for k, v in urllib.parse.parse_qsl(c["query"], keep_blank_values=True):
                                if k != "$alt":
                                    T.apply_param(seen, k, v, "query")
                            for var, val in T.match_path(b["uri"], c["path"]).items():
                                set_string(seen, var, val)
                except Fail:
                    raise
                except Exception as e:
                    import traceback
                    raise Fail("call-raised", f"{path_} ({kind}): {type(e).__name__}: {str(e)[:300]}", dict(detail, traceback=traceback.format_exc()[-1200:]))
                if seen is None:
                    raise Fail("call-count", f"{path_} ({kind}): expected exactly one request on the wire", detail)
                for fn in fields:
                    got = getattr(seen, fn)
                    mode = modes[fn]
                    populate = mode == "unset" or (mode == "empty" and not presence[fn])
                    if populate:
                        if not CANON.match(got):
                            raise Fail("uuid-not-populated", f"{path_} ({kind}): field {fn} was {mode} (presence={presence[fn]}); the server saw {got!r}, "
                                       f"not a canonical version-4 UUID", detail)
                        u = uuid.UUID(got)
                        if u.version != 4 or u.variant != uuid.RFC_4122:
                            raise Fail("uuid-form", f"{path_} ({kind}): {got!r} is not an RFC-4122 version-4 UUID", detail)
                        if got in seen_ids:
                            raise Fail("uuid-not-fresh", f"{path_} ({kind}): UUID {got} was sent before", detail)
                        seen_ids.add(got)
                    else:
                        want = getattr(req, fn)
                        if got != want:
                            raise Fail("caller-value-altered", f"{path_} ({kind}): caller set {fn}={want!r} ({mode}, presence={presence[fn]}); the server saw {got!r}", detail)
                        if presence[fn] and kind != "rest" and not seen.HasField(fn):
                            raise Fail("caller-value-altered", f"{path_} ({kind}): caller set {fn} explicitly (presence) but the field arrived unset", detail)
                # all other fields untouched
                a, b2 = dyn_in(), dyn_in()
                a.CopyFrom(seen); b2.CopyFrom(req)
                for fn in fields:
                    a.ClearField(fn); b2.ClearField(fn)
                if kind == "rest":
                    T.prune_empty(a); T.prune_empty(b2)
                    if json_format.MessageToDict(a) != json_format.MessageToDict(b2):
                        raise Fail("other-fields-altered", f"{path_} ({kind}): fields other than {fields} changed: sent {str(b2)[:200]!r}, seen {str(a)[:200]!r}", detail)
                elif a != b2:
                    raise Fail("other-fields-altered", f"{path_} ({kind}): fields other than {fields} changed: sent {str(b2)[:200]!r}, seen {str(a)[:200]!r}", detail)

            forall(ctx, scenario(), one, n, label=m["name"], shrink=False)
            ctx.count("methods_exercised")
    ctx.sample({"inner_evaluations": ctx.counters.get("inner_evaluations", 0), "uuids_seen": len(seen_ids), "settings": ctx.inner["settings"][:3]})
