"""Context shared by the per-property exercisers: the INPUT descriptors (reference decoder),
the expected python package (reference naming), result recording."""
import hashlib, importlib, json, os, sys

from google.protobuf import descriptor_pb2, descriptor_pool, message_factory

from .. import model as M
from ..refmodels import naming as refnaming


class Stop(Exception):
    pass


class Ctx:
    def __init__(self, case, casedir):
        self.case, self.casedir = case, casedir
        self.api, self.options, self.inner = case["api"], case["options"], case.get("inner") or {}
        self.out = case["out"]
        self.violations, self.classes, self.signatures, self.samples, self.counters = [], {}, set(), [], {}
        self.harness_error = None
        self._closers = []
        fds = descriptor_pb2.FileDescriptorSet()
        with open(os.path.join(casedir, "fds.bin"), "rb") as fh:
            fds.ParseFromString(fh.read())
        self.fds = fds
        self.pool = descriptor_pool.DescriptorPool()
        for f in fds.file:
            self.pool.Add(f)
        # types that generated Any values may pack (so that JSON with @type resolves under this pool)
        from .. import deps as _deps
        have = {f.name for f in fds.file}
        for f in _deps.dep_files(["google/protobuf/empty.proto", "google/protobuf/timestamp.proto", "google/protobuf/duration.proto"]):
            if f.name not in have:
                self.pool.Add(f)
        self.naming = refnaming.expected(self.api, self.options)
        sys.path.insert(0, self.out)

    # -- recording ---------------------------------------------------------
    def violation(self, kind, msg, detail=None, stop=False):
        self.violations.append({"kind": kind, "msg": str(msg)[:3000], "detail": detail})
        if stop or len(self.violations) >= 5:
            raise Stop()

    def cls(self, label, n=1):
        self.classes[label] = self.classes.get(label, 0) + n

    def count(self, key, n=1):
        self.counters[key] = self.counters.get(key, 0) + n

    def nontrivial(self, sig):
        if not isinstance(sig, str):
            sig = json.dumps(sig, sort_keys=True, default=str)
        self.signatures.add(hashlib.sha1(sig.encode()).hexdigest()[:16])

    def sample(self, obj, cap=3):
        if len(self.samples) < cap:
            self.samples.append(obj)

    def on_close(self, fn):
        self._closers.append(fn)

    def close(self):
        for fn in reversed(self._closers):
            try:
                fn()
            except Exception:
                pass

    def write(self):
        res = {"violations": self.violations, "classes": self.classes, "signatures": sorted(self.signatures),
               "samples": self.samples, "counters": self.counters}
        if self.harness_error:
            res["harness_error"] = self.harness_error
        with open(os.path.join(self.casedir, "result.json"), "w") as fh:
            json.dump(res, fh, default=str)

    # -- reference decoding ------------------------------------------------
    def msgclass(self, full_name):
        return message_factory.GetMessageClass(self.pool.FindMessageTypeByName(full_name.lstrip(".")))

    def descriptor(self, full_name):
        return self.pool.FindMessageTypeByName(full_name.lstrip("."))

    # -- emitted package ---------------------------------------------------
    def import_package(self):
        return importlib.import_module(self.naming["versioned_import"])

    def services(self):
        targets = self.api.get("file_to_generate")
        for f in self.api["files"]:
            if targets and f["name"] not in targets:
                continue          # a dependency-only file: no client is emitted for its services
            for s in f.get("services", []):
                yield f, s


# ---------------------------------------------------------------------------
# inner Hypothesis layer

class Fail(Exception):
    def __init__(self, kind, msg, detail=None):
        super().__init__(f"{kind}: {msg}")
        self.kind, self.msg, self.detail = kind, msg, detail


def forall(ctx, strategy, fn, n, label="", shrink=True):
    """Run fn(value) for n generated values (seeded by the case's inner seed). A Fail raised by fn is
    shrunk by Hypothesis and then reported as a violation of the case (first failure only)."""
    import hypothesis
    from hypothesis import given, settings, HealthCheck, Phase
    last = {}
    seed = int(ctx.inner.get("seed", 0))

    phases = [Phase.generate] + ([Phase.shrink] if shrink else [])

    @hypothesis.seed(seed)
    @settings(max_examples=n, database=None, deadline=None, report_multiple_bugs=False, phases=phases,
              suppress_health_check=list(HealthCheck), verbosity=hypothesis.Verbosity.quiet)
    @given(strategy)
    def run(v):
        ctx.count("inner_evaluations")
        try:
            fn(v)
        except Fail as f:
            last["f"] = f
            raise
    try:
        run()
    except Fail as f:
        f = last.get("f", f)
        ctx.violation(f.kind, (label + ": " if label else "") + f.msg, f.detail)
    except Stop:
        raise
    except BaseException as e:
        if "f" in last:
            f = last["f"]
            ctx.violation(f.kind, (label + ": " if label else "") + f.msg, f.detail)
        else:
            raise


# ---------------------------------------------------------------------------
# reference naming of the emitted surface (written from the public convention)

import keyword as _kw
import re as _re


def snake(name):
    """UpperCamel -> lower_snake (reference; names in the generated domain are plain CamelCase)."""
    s = _re.sub(r"([a-z0-9])([A-Z])", r"\1_\2", name)
    s = _re.sub(r"([A-Z]+)([A-Z][a-z])", r"\1_\2", s)
    return s.lower()


def client_method_name(rpc_name):
    s = snake(rpc_name)
    return s + "_" if _kw.iskeyword(s) else s


def module_of_file(ctx, file):
    """python package in which the emitted classes of a proto file live (sub-packages honoured)."""
    root = ctx.naming["root_package"]
    sub = file["package"][len(root):].strip(".")
    return ctx.naming["versioned_import"] + ("." + sub if sub else "")
