"""Context shared by the per-property exercisers: the INPUT descriptors (reference decoder),
the expected python package (reference naming), result recording."""
import hashlib, importlib, json, os, sys

from google.protobuf import descriptor_pb2, descriptor_pool, message_factory

from .. import model as M
from ..refmodels import naming as refnaming


class Stop(Exception):
    pass


class Ctx:
    def __init__(self, case, casedir):
        self.case, self.casedir = case, casedir
        self.api, self.options, self.inner = case["api"], case["options"], case.get("inner") or {}
        self.out = case["out"]
        self.violations, self.classes, self.signatures, self.samples, self.counters = [], {}, set(), [], {}
        self.harness_error = None
        self._closers = []
        fds = descriptor_pb2.FileDescriptorSet()
        with open(os.path.join(casedir, "fds.bin"), "rb") as fh:
            fds.ParseFromString(fh.read())
        self.fds = fds
        self.pool = descriptor_pool.DescriptorPool()
        for f in fds.file:
            self.pool.Add(f)
        self.naming = refnaming.expected(self.api, self.options)
        sys.path.insert(0, self.out)

    # -- recording ---------------------------------------------------------
    def violation(self, kind, msg, detail=None, stop=False):
        self.violations.append({"kind": kind, "msg": str(msg)[:3000], "detail": detail})
        if stop or len(self.violations) >= 5:
            raise Stop()

    def cls(self, label, n=1):
        self.classes[label] = self.classes.get(label, 0) + n

    def count(self, key, n=1):
        self.counters[key] = self.counters.get(key, 0) + n

    def nontrivial(self, sig):
        if not isinstance(sig, str):
            sig = json.dumps(sig, sort_keys=True, default=str)
        self.signatures.add(hashlib.sha1(sig.encode()).hexdigest()[:16])

    def sample(self, obj, cap=3):
        if len(self.samples) < cap:
            self.samples.append(obj)

    def on_close(self, fn):
        self._closers.append(fn)

    def close(self):
        for fn in reversed(self._closers):
            try:
                fn()
            except Exception:
                pass

    def write(self):
        res = {"violations": self.violations, "classes": self.classes, "signatures": sorted(self.signatures),
               "samples": self.samples, "counters": self.counters}
        if self.harness_error:
            res["harness_error"] = self.harness_error
        with open(os.path.join(self.casedir, "result.json"), "w") as fh:
            json.dump(res, fh, default=str)

    # -- reference decoding ------------------------------------------------
    def msgclass(self, full_name):
        return message_factory.GetMessageClass(self.pool.FindMessageTypeByName(full_name.lstrip(".")))

    def descriptor(self, full_name):
        return self.pool.FindMessageTypeByName(full_name.lstrip("."))

    # -- emitted package ---------------------------------------------------
    def import_package(self):
        return importlib.import_module(self.naming["versioned_import"])

    def services(self):
        for f in self.api["files"]:
            for s in f.get("services", []):
                yield f, s
