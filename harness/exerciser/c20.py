"""C20 (end to end) — comments of every element kind reach the docstrings of the emitted classes and methods intact."""
import importlib

from .base import client_method_name, module_of_file, snake
from .c02 import find_class
from .. import model as M


def norm(s):
    return s.replace('\\"', '"').split()


def in_order(words, hay):
    it = iter(hay)
    # rst() appends '.' to a text that ends in a double quote (documented guard against closing the docstring)
    # ... and to one that ends in a backslash (it would escape the closing quotes)
    return all(any(w == h or (w.endswith(('"', "\\")) and h == w + ".") for h in it) for w in words)


def exercise(ctx):
    from .c01 import import_all
    import_all(ctx)
    checked = 0
    for f in ctx.api["files"]:
        for full, m, _ in M.walk_messages(f):
            cls = find_class(ctx, full, f)
            if cls is None:
                continue
            doc = norm(cls.__doc__ or "")
            for what, text in [("message", m.get("comment"))] + [(f"field {x['name']}", x.get("comment")) for x in m["fields"]]:
                if not text or isinstance(text, dict):
                    continue
                checked += 1
                if not in_order(norm(text), doc):
                    ctx.violation("docstring-words", f"{full}: the words of the {what} comment do not appear in order in {cls.__name__}.__doc__",
                                  {"comment": text[:300], "doc": (cls.__doc__ or "")[:600]})
        for full, e in M.walk_enums(f):
            cls = find_class(ctx, full, f)
            if cls is None or not e.get("comment"):
                continue
            checked += 1
            if not in_order(norm(e["comment"]), norm(cls.__doc__ or "")):
                ctx.violation("docstring-words", f"{full}: the words of the enum comment do not appear in order in its docstring",
                              {"comment": e["comment"][:300], "doc": (cls.__doc__ or "")[:600]})
        pkg = importlib.import_module(module_of_file(ctx, f))
        for s in f.get("services", []):
            for cname in (s["name"] + "Client", s["name"] + "AsyncClient"):
                cls = getattr(pkg, cname, None)
                if cls is None:
                    continue
                if s.get("comment"):
                    checked += 1
                    if not in_order(norm(s["comment"]), norm(cls.__doc__ or "")):
                        ctx.violation("docstring-words", f"{cname}: the words of the service comment do not appear in order in its docstring",
                                      {"comment": s["comment"][:300], "doc": (cls.__doc__ or "")[:600]})
                for m in s["methods"]:
                    meth = getattr(cls, client_method_name(m["name"]), None)
                    if meth is None or not m.get("comment"):
                        continue
                    checked += 1
                    if not in_order(norm(m["comment"]), norm(meth.__doc__ or "")):
                        ctx.violation("docstring-words", f"{cname}.{client_method_name(m['name'])}: the words of the RPC comment do not appear in order in its docstring",
                                      {"comment": m["comment"][:300], "doc": (meth.__doc__ or "")[:600]})
        # the REST transport's per-method __call__ docstrings embed the request and response message comments
        if "rest" in ctx.options.get("transport", ""):
            for s in f.get("services", []):
                try:
                    tmod = importlib.import_module(module_of_file(ctx, f) + f".services.{snake(s['name'])}.transports.rest")
                except ImportError:
                    continue
                tcls = getattr(tmod, s["name"] + "RestTransport", None)
                for m in s["methods"]:
                    stub = getattr(tcls, "_" + m["name"], None) if tcls else None
                    if stub is None or not m.get("http") or m.get("cs"):
                        continue
                    doc = norm(stub.__call__.__doc__ or "")
                    for what, tname in (("request", m["input"]), ("response", m["output"])):
                        mm = M.find_message(ctx.api, tname)
                        if mm is None or not mm.get("comment") or isinstance(mm["comment"], dict):
                            continue
                        if what == "response" and (m["output"] == ".google.protobuf.Empty"):
                            continue
                        checked += 1
                        if not in_order(norm(mm["comment"]), doc):
                            ctx.violation("docstring-words", f"{s['name']}RestTransport._{m['name']}.__call__: the words of the {what} message comment do "
                                          f"not appear in order in its docstring", {"comment": mm["comment"][:300], "doc": (stub.__call__.__doc__ or "")[:800]})
    ctx.count("docstrings_checked", checked)
    ctx.sample({"docstrings_checked": checked})
