"""C20 (end to end) — comments of every element kind reach the docstrings of the emitted classes and methods intact."""
import importlib

from .base import client_method_name, module_of_file
from .c02 import find_class
from .. import model as M


def norm(s):
    return s.replace('\\"', '"').split()


def in_order(words, hay):
    it = iter(hay)
    # rst() appends '.' to a text that ends in a double quote (documented guard against closing the docstring)
    return all(any(w == h or (w.endswith('"') and h == w + ".") for h in it) for w in words)


def exercise(ctx):
    from .c01 import import_all
    import_all(ctx)
    checked = 0
    for f in ctx.api["files"]:
        for full, m, _ in M.walk_messages(f):
            cls = find_class(ctx, full, f)
            if cls is None:
                continue
            doc = norm(cls.__doc__ or "")
            for what, text in [("message", m.get("comment"))] + [(f"field {x['name']}", x.get("comment")) for x in m["fields"]]:
                if not text or isinstance(text, dict):
                    continue
                checked += 1
                if not in_order(norm(text), doc):
                    ctx.violation("docstring-words", f"{full}: the words of the {what} comment do not appear in order in {cls.__name__}.__doc__",
                                  {"comment": text[:300], "doc": (cls.__doc__ or "")[:600]})
        for full, e in M.walk_enums(f):
            cls = find_class(ctx, full, f)
            if cls is None or not e.get("comment"):
                continue
            checked += 1
            if not in_order(norm(e["comment"]), norm(cls.__doc__ or "")):
                ctx.violation("docstring-words", f"{full}: the words of the enum comment do not appear in order in its docstring",
                              {"comment": e["comment"][:300], "doc": (cls.__doc__ or "")[:600]})
        pkg = importlib.import_module(module_of_file(ctx, f))
        for s in f.get("services", []):
            for cname in (s["name"] + "Client", s["name"] + "AsyncClient"):
                cls = getattr(pkg, cname, None)
                if cls is None:
                    continue
                if s.get("comment"):
                    checked += 1
                    if not in_order(norm(s["comment"]), norm(cls.__doc__ or "")):
                        ctx.violation("docstring-words", f"{cname}: the words of the service comment do not appear in order in its docstring",
                                      {"comment": s["comment"][:300], "doc": (cls.__doc__ or "")[:600]})
                for m in s["methods"]:
                    meth = getattr(cls, client_method_name(m["name"]), None)
                    if meth is None or not m.get("comment"):
                        continue
                    checked += 1
                    if not in_order(norm(m["comment"]), norm(meth.__doc__ or "")):
                        ctx.violation("docstring-words", f"{cname}.{client_method_name(m['name'])}: the words of the RPC comment do not appear in order in its docstring",
                                      {"comment": m["comment"][:300], "doc": (meth.__doc__ or "")[:600]})
    ctx.count("docstrings_checked", checked)
    ctx.sample({"docstrings_checked": checked})
