"""C19 (end to end) — path helpers of the emitted sync and asyncio client classes."""
import inspect, re
from hypothesis import strategies as st

from .base import Fail, forall, snake, module_of_file
from ..refmodels import respath as RP
from .. import model as M

COMMON = {"billing_account": "billingAccounts/{billing_account}", "folder": "folders/{folder}", "organization": "organizations/{organization}",
          "project": "projects/{project}", "location": "projects/{project}/locations/{location}"}
ALPHA = "abcXYZ019 +=&%:;,!@#$^()[]'éü中"


def visible_resources(ctx, f, svc):
    """must-have helper set (from the statement): message resources in the request/response closure of the service's methods and
    file-level definitions referenced from it. -> {short snake name: [patterns]} (several types may share a short name)."""
    out = {}
    defs = {}
    for ff in ctx.api["files"]:
        for rd in ff.get("resource_definitions", []):
            defs[rd["type"]] = rd["patterns"]
        for full, m, _ in M.walk_messages(ff):
            if m.get("resource"):
                defs[m["resource"]["type"]] = m["resource"]["patterns"]
    seen = set()

    def walk(type_name):
        m = M.find_message(ctx.api, type_name)
        if m is None or type_name in seen:
            return
        seen.add(type_name)
        if m.get("resource"):
            out.setdefault(m["resource"]["type"], m["resource"]["patterns"])
        for fld in m["fields"]:
            ref = fld.get("ref")
            if ref:
                t = ref.get("type") or ref.get("child_type")
                if t in defs:
                    out.setdefault(t, defs[t])
            tn = fld.get("type_name") or (fld.get("map_value") or {}).get("type_name")
            if tn and fld["type"] in ("message", "map"):
                walk(tn)
    for m in svc["methods"]:
        walk(m["input"])
        if m.get("lro") is not None and m["lro"].get("response"):
            r = m["lro"]["response"]
            walk("." + (r if "." in r else f"{f['package']}.{r}"))
        else:
            walk(m["output"])
    return out


def exercise(ctx):
    from .c01 import import_all
    import importlib
    import_all(ctx)
    n = int(ctx.inner.get("n", 20))
    for f, svc in ctx.services():
        pkg = importlib.import_module(module_of_file(ctx, f))
        for cname in (svc["name"] + "Client", svc["name"] + "AsyncClient"):
            cls = getattr(pkg, cname)
            want = visible_resources(ctx, f, svc)
            by_short = {}
            for t, pats in want.items():
                by_short.setdefault(snake(t.split("/", 1)[1]), []).append((t, pats))
            helpers = {}
            for short, cands in by_short.items():
                b, p = getattr(cls, f"{short}_path", None), getattr(cls, f"parse_{short}_path", None)
                if b is None or p is None:
                    ctx.violation("helper-missing", f"{cname}: no {short}_path / parse_{short}_path for visible resource {[c[0] for c in cands]}")
                    continue
                params = list(inspect.signature(b).parameters)
                allpats = [pp for _, pats in cands for pp in pats]
                match = [pp for pp in allpats if RP.variables(pp) == params]
                if not match:
                    ctx.violation("helper-params", f"{cname}.{short}_path{tuple(params)} follows none of the declared patterns {allpats}")
                    continue
                helpers[short] = (b, p, match)
                ctx.nontrivial(["e2e", len(params), len(allpats) > 1, cname.endswith("AsyncClient")])
            for short, pat in COMMON.items():
                b, p = getattr(cls, f"common_{short}_path", None), getattr(cls, f"parse_common_{short}_path", None)
                if b is None or p is None:
                    ctx.violation("common-helper-missing", f"{cname}: no common_{short}_path pair")
                    continue
                helpers["common_" + short] = (b, p, [pat])
            for name, (b, p, pats) in sorted(helpers.items()):
                params = list(inspect.signature(b).parameters)

                def one(vals, b=b, p=p, pats=pats, params=params, name=name):
                    segs = dict(zip(params, vals))
                    try:
                        built = b(**segs)
                        p(built)
                    except Exception as e:
                        raise Fail("e2e-helper-raised", f"{cname}.{name}_path(**{segs}) / parse raised {type(e).__name__}: {e} (patterns {pats})")
                    if not any(RP.build(pp, segs) == built for pp in pats):
                        raise Fail("e2e-build", f"{cname}.{name}_path(**{segs}) = {built!r} instantiates none of {pats}")
                    got = p(built)
                    if got != segs:
                        raise Fail("e2e-parse-of-build", f"{cname}.parse_{name}_path({built!r}) = {got}, built from {segs}")
                    if b(**got) != built:
                        raise Fail("e2e-build-of-parse", f"{cname}: build(parse(p)) != p for {built!r}")
                    bad = "Q" + built
                    if not any(RP.fits(pp, bad) for pp in pats) and p(bad) != {}:
                        raise Fail("e2e-nonmatching-parsed", f"{cname}.parse_{name}_path({bad!r}) = {p(bad)}, expected an empty dict")
                multi = any(t[0] == "var" and t[2] for pp in pats for t in RP.tokens(pp))
                forall(ctx, st.lists(st.text(alphabet=ALPHA, min_size=1, max_size=5), min_size=len(params), max_size=len(params)), one, n, label=name, shrink=True)
            ctx.count("clients_checked")
    ctx.sample({"inner_evaluations": ctx.counters.get("inner_evaluations", 0)})
