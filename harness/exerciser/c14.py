"""C14 — generated samples are valid, executable and consistent with their metadata."""
import ast, contextlib, glob, importlib, inspect, io, json, os, re, textwrap

from google.longrunning import operations_pb2
from google.protobuf import any_pb2, json_format
from google.protobuf.descriptor import FieldDescriptor as FD

from .base import snake, client_method_name
from .rig import Rig
from . import values
from .. import model as M
from ..refmodels import paging as P

MARKERS = {"CLIENT_INITIALIZATION": "# Create a client", "REQUEST_INITIALIZATION": "# Initialize request argument(s)",
           "REQUEST_EXECUTION": "# Make the request", "RESPONSE_HANDLING": "# Handle the response"}
GETOP = "/google.longrunning.Operations/GetOperation"


def needs_population(ctx, model_msg, seen=()):
    """does the sample generator have anything to set inside this message? (transitively: a required scalar/enum/repeated
    field, or a oneof whose first member is such a field or a message that needs population)"""
    if model_msg is None or id(model_msg) in seen:
        return False
    seen = seen + (id(model_msg),)
    for fld in model_msg["fields"]:
        first_of_oneof = fld.get("oneof") and next(x for x in model_msg["fields"] if x.get("oneof") == fld["oneof"]) is fld
        if not (fld.get("required") or first_of_oneof):
            continue
        if fld["type"] == "map":
            continue
        if fld["type"] == "message" and not fld.get("repeated"):
            if needs_population(ctx, M.find_message(ctx.api, fld["type_name"]), seen):
                return True
        else:
            return True
    return False


def required_ok(ctx, msg, model_msg, path="", ancestors=()):
    """-> description of the first required field left unpopulated, else None (recursive through required messages)."""
    if model_msg is None:
        return None
    for fld in model_msg["fields"]:
        if not fld.get("required"):
            continue
        fd = msg.DESCRIPTOR.fields_by_name[fld["name"]]
        v = getattr(msg, fld["name"])
        p = path + fld["name"]
        if fd.label == FD.LABEL_REPEATED:
            if len(v) == 0:
                return f"{p} (repeated) is empty"
        elif fd.message_type is not None:
            sub = M.find_message(ctx.api, "." + fd.message_type.full_name)
            if fd.message_type.full_name in ancestors + (msg.DESCRIPTOR.full_name,):
                continue              # a recursive required field cannot be populated all the way down
            if not msg.HasField(fld["name"]):
                if not needs_population(ctx, sub):
                    continue          # nothing inside is required: whether an empty message counts as "populated" is not fixed -> measured
                return f"{p} (message) is not set although it has required members"
            r = required_ok(ctx, v, sub, p + ".", ancestors + (msg.DESCRIPTOR.full_name,))
            if r:
                return r
        elif fd.enum_type is not None:
            if len(fd.enum_type.values) > 1 and v == fd.enum_type.values[0].number:
                return f"{p} (enum) has its first value"
        elif v == fd.default_value and not (fd.has_presence and msg.HasField(fld["name"])):
            return f"{p} has its default value"
    return None


def exercise(ctx):
    from .c01 import import_all
    import_all(ctx)
    rig = Rig(ctx)
    classes = values.classes_of(ctx.pool)
    pkg = importlib.import_module(ctx.naming["versioned_import"])
    transports = ctx.options["transport"].split("+")
    sdir = os.path.join(ctx.out, "samples", "generated_samples")
    files = {os.path.basename(p): open(p).read() for p in glob.glob(os.path.join(sdir, "*.py"))}
    mds = glob.glob(os.path.join(sdir, "snippet_metadata*.json"))
    if len(mds) != 1:
        ctx.violation("metadata-file", f"{len(mds)} snippet metadata files")
        return
    md = json.load(open(mds[0]))
    by_tag, tags = {}, {}
    for name, src in files.items():
        st = re.findall(r"^# \[START ([^\]]+)\]$", src, re.M)
        en = re.findall(r"^# \[END ([^\]]+)\]$", src, re.M)
        if len(st) != 1 or st != en:
            ctx.violation("region-tags", f"{name}: START tags {st}, END tags {en}")
            continue
        if st[0] in tags:
            ctx.violation("region-tag-duplicate", f"region tag {st[0]} is used by {tags[st[0]]} and {name}")
        tags[st[0]] = name
    entries = {e["regionTag"]: e for e in md.get("snippets", [])}
    if len(entries) != len(md.get("snippets", [])):
        ctx.violation("region-tag-duplicate", "duplicate regionTag in the snippet metadata")
    version = ctx.naming["version"]
    for f, svc in ctx.services():
        short = (svc.get("host") or "").split(".")[0]
        for m in svc["methods"]:
            in_desc, out_desc = ctx.descriptor(m["input"]), ctx.descriptor(m["output"])
            path_ = f"/{f['package']}.{svc['name']}/{m['name']}"
            cs, ss = bool(m.get("cs")), bool(m.get("ss"))
            lro = m.get("lro") is not None
            paged = P.classify(in_desc, out_desc)[0] and not cs and not ss and not lro
            form = "lro" if lro else "paged" if paged else "bidi" if cs and ss else "cs" if cs else "ss" if ss else "void" if m["output"] == ".google.protobuf.Empty" else "unary"
            kinds = ["sync"] + (["async"] if "grpc" in transports else [])
            model_req = M.find_message(ctx.api, m["input"])
            req_kinds = sorted({x["type"] for x in (model_req or {"fields": []})["fields"] if x.get("required")})
            for kind in kinds:
                tag = f"{short}_{version}_generated_{svc['name']}_{m['name']}_{kind}"
                if not version:
                    cand = [t for t in tags if t.endswith(f"_generated_{svc['name']}_{m['name']}_{kind}")]
                    ctx.cls("unversioned package: region tag format measured")
                    if len(cand) != 1:
                        ctx.violation("sample-count", f"{len(cand)} samples for {svc['name']}.{m['name']} {kind}")
                        continue
                    tag = cand[0]
                if tag not in tags:
                    ctx.violation("sample-missing", f"no sample with region tag {tag} (have {sorted(tags)[:6]}...)")
                    continue
                name, src = tags[tag], files[tags[tag]]
                if req_kinds or form != "unary":
                    ctx.nontrivial(["sample", form, req_kinds, m["input"].startswith(".google."), kind])
                ctx.cls("form:" + form)
                lines = src.split("\n")
                s_line = next(i for i, l in enumerate(lines, 1) if l == f"# [START {tag}]")
                e_line = next(i for i, l in enumerate(lines, 1) if l == f"# [END {tag}]")
                # -- imports: only the public package (and dependency request modules)
                try:
                    tree = ast.parse(src)
                except SyntaxError as e:
                    ctx.violation("sample-syntax", f"{name}: {e}")
                    continue
                for node in ast.walk(tree):
                    mods = []
                    if isinstance(node, ast.ImportFrom):
                        mods = [f"{node.module}.{a.name}" for a in node.names]
                    elif isinstance(node, ast.Import):
                        mods = [a.name for a in node.names]
                    for mod in mods:
                        if mod.startswith(ctx.naming["versioned_import"] + ".") or ".types" in mod or ".services" in mod:
                            ctx.violation("sample-private-import", f"{name} imports {mod}; samples use only the public package")
                # -- metadata entry
                e = entries.get(tag)
                if e is None:
                    ctx.violation("metadata-entry-missing", f"no snippet metadata entry for {tag}")
                    continue
                if e.get("file") != name:
                    ctx.violation("metadata-file-name", f"{tag}: metadata file {e.get('file')!r}, sample file {name!r}")
                cm = e.get("clientMethod", {})
                ccls = getattr(pkg, cm.get("client", {}).get("shortName", ""), None)
                meth = getattr(ccls, cm.get("shortName", ""), None) if ccls else None
                if ccls is None or not callable(meth):
                    ctx.violation("metadata-client-method", f"{tag}: {cm.get('fullName')!r} does not resolve in {pkg.__name__}")
                    continue
                exp_cls = svc["name"] + ("AsyncClient" if kind == "async" else "Client")
                if ccls.__name__ != exp_cls or cm.get("shortName") != client_method_name(m["name"]):
                    ctx.violation("metadata-client-method", f"{tag}: metadata names {ccls.__name__}.{cm.get('shortName')}, expected {exp_cls}.{client_method_name(m['name'])}")
                if bool(cm.get("async")) != (kind == "async"):
                    ctx.violation("metadata-async-flag", f"{tag}: async={cm.get('async')}")
                params = [p["name"] for p in cm.get("parameters", [])]
                sig = [p for p in inspect.signature(meth).parameters if p != "self"]
                if params != sig:
                    ctx.violation("metadata-parameters", f"{tag}: metadata parameters {params}, method signature {sig}")
                segs = {s["type"]: s for s in e.get("segments", [])}
                for t in ("FULL", "SHORT"):
                    if t not in segs or segs[t].get("start") != s_line + 1 or segs[t].get("end") != e_line - 1:
                        ctx.violation("segment-full", f"{tag}: {t} segment {segs.get(t)}, the tags are on lines {s_line} and {e_line} (expected {s_line + 1}..{e_line - 1})")
                prev_end = None
                for t in ("CLIENT_INITIALIZATION", "REQUEST_INITIALIZATION", "REQUEST_EXECUTION", "RESPONSE_HANDLING"):
                    sg = segs.get(t)
                    if not sg:
                        continue
                    a, b = sg.get("start"), sg.get("end")
                    if a is None or b is None:
                        ctx.violation("segment-range", f"{tag}: {t} segment {sg} lacks a start or end line")
                        continue
                    if not (s_line < a <= b <= e_line):
                        ctx.violation("segment-range", f"{tag}: {t} segment {a}..{b} is outside the snippet {s_line}..{e_line}")
                        continue
                    if MARKERS[t] not in lines[a - 1]:
                        ctx.violation("segment-marker", f"{tag}: {t} starts on line {a} ({lines[a - 1].strip()!r}), not on its marker comment {MARKERS[t]!r}")
                    if prev_end is not None and a <= prev_end:
                        ctx.violation("segment-overlap", f"{tag}: {t} starts at {a}, previous segment ends at {prev_end}")
                    prev_end = b
                # -- docstring snippet == text between the tags
                doc = meth.__doc__ or ""
                if ".. code-block:: python" in doc:
                    block = doc.split(".. code-block:: python", 1)[1]
                    blines = block.split("\n")
                    body = []
                    for l in blines[1:]:
                        if l.strip() == "" or l.startswith(" " * 12) or (body == [] and l.startswith(" ")):
                            body.append(l)
                        elif body and not l.startswith(" " * 12) and l.strip():
                            break
                    got = textwrap.dedent("\n".join(body)).strip("\n")
                    want = textwrap.dedent("\n".join(lines[s_line:e_line - 1])).strip("\n")
                    norm = lambda s: "\n".join(x.rstrip() for x in s.split("\n") if x.strip())
                    if norm(got) != norm(want):
                        ctx.violation("docstring-snippet", f"{tag}: the code block in {ccls.__name__}.{cm.get('shortName')}.__doc__ differs from the text between the tags",
                                      {"doc": got[-400:], "file": want[-400:]})
                # -- execution
                rest_only = "grpc" not in transports
                if rest_only:
                    # REST transcoding needs path fields that match the binding's pattern; the sample's placeholder values
                    # ("name_value") are documented as needing modification, so REST-only samples are not executed
                    ctx.cls("execution skipped: REST-only library")
                    continue
                mfn = re.search(r"^(?:async )?def (sample_\w+)\(", src, re.M)
                fn_name = mfn.group(1) if mfn else "sample_?"
                state = {"n": 0}

                def default_reply():
                    if lro:
                        r = m["lro"]["response"]
                        rfull = r if "." in r else f"{f['package']}.{r}"
                        payload = classes(ctx.pool.FindMessageTypeByName(rfull))()
                        a = any_pb2.Any(type_url="type.googleapis.com/" + rfull, value=payload.SerializeToString())
                        return operations_pb2.Operation(name="operations/s", done=True, response=a)
                    return classes(out_desc)()

                rig.grpc.respond = lambda rec: ([default_reply().SerializeToString()] if ss else default_reply().SerializeToString())
                rig.http.respond if rest_only else None
                if rest_only:
                    rig.http.respond = lambda rec: (200, "[{}]" if ss else "{}", {})
                    rig.http.take()
                rig.grpc.take()
                real_sync, real_async = getattr(pkg, svc["name"] + "Client"), getattr(pkg, svc["name"] + "AsyncClient", None)

                def sync_factory(*a, **k):
                    return rig.client(f, svc, "rest" if rest_only else "sync")

                def async_factory(*a, **k):
                    return rig.client(f, svc, "async")
                ns = {"__name__": "sample_under_test"}
                setattr(pkg, svc["name"] + "Client", sync_factory)
                if real_async is not None:
                    setattr(pkg, svc["name"] + "AsyncClient", async_factory)
                # clients must exist before the names are rebound to factories
                try:
                    setattr(pkg, svc["name"] + "Client", real_sync)
                    if real_async is not None:
                        setattr(pkg, svc["name"] + "AsyncClient", real_async)
                    rig.client(f, svc, "rest" if rest_only else "sync")
                    if kind == "async":
                        rig.client(f, svc, "async")
                    setattr(pkg, svc["name"] + "Client", sync_factory)
                    if real_async is not None:
                        setattr(pkg, svc["name"] + "AsyncClient", async_factory)
                    exec(compile(src, name, "exec"), ns)
                    fn = ns.get(fn_name)
                    if fn is None:
                        ctx.violation("sample-function", f"{name} defines no function {fn_name}")
                        continue
                    with contextlib.redirect_stdout(io.StringIO()):
                        if kind == "async":
                            rig.run(fn())
                        else:
                            fn()
                except Exception as ex:
                    import traceback
                    ctx.violation("sample-raised", f"{name}: {type(ex).__name__}: {str(ex)[:300]}", {"traceback": traceback.format_exc()[-1500:], "source": src[-1500:]})
                    continue
                finally:
                    setattr(pkg, svc["name"] + "Client", real_sync)
                    if real_async is not None:
                        setattr(pkg, svc["name"] + "AsyncClient", real_async)
                if rest_only:
                    calls = rig.http.take()
                    if len(calls) != 1:
                        ctx.violation("sample-call-count", f"{name}: {len(calls)} HTTP requests, expected exactly one")
                    ctx.count("samples_executed")
                    continue
                calls = [c for c in rig.grpc.take() if c["method"] != GETOP]
                if len(calls) != 1 or calls[0]["method"] != path_:
                    ctx.violation("sample-call-count", f"{name}: RPCs observed {[c['method'] for c in calls]}, expected exactly one call to {path_}")
                    continue
                dyn = classes(in_desc)
                sent = [dyn.FromString(b) for b in calls[0]["requests"]]
                for r in sent[:1]:
                    miss = required_ok(ctx, r, model_req)
                    if miss:
                        ctx.violation("required-not-populated", f"{name}: required field {miss} in the request the sample sent", {"request": str(r)[:400], "source": src[-1200:]})
                    for o in in_desc.oneofs:
                        if len(o.fields) == 1 and o.name == "_" + o.fields[0].name:
                            continue
                        first = o.fields[0]
                        if first.message_type is not None:
                            sub = M.find_message(ctx.api, "." + first.message_type.full_name)
                            if not needs_population(ctx, sub) or first.message_type.full_name == in_desc.full_name:
                                ctx.cls("oneof whose first member is a message with nothing required inside (measured)")
                                continue
                        if r.WhichOneof(o.name) is None:
                            ctx.violation("oneof-not-populated", f"{name}: no member of oneof {o.name!r} is set in the request the sample sent", {"request": str(r)[:300]})
                ctx.count("samples_executed")
    ctx.sample({"samples": len(files), "executed": ctx.counters.get("samples_executed", 0)})
