"""C09 — default retry and timeout of each method equal its gRPC service-config entry."""
import asyncio, time
import grpc
from hypothesis import strategies as st

from .base import Fail, forall, client_method_name
from . import values
from .rig import Rig, to_python
from .servers import GrpcError, REAL_MONOTONIC
from ..strategies import CODES

NO_DEADLINE = 1e12


class Clock:
    """The harness owns the clock: sleeps return at once, are recorded, and advance time.monotonic."""

    def __init__(self):
        self.offset, self.sleeps = 0.0, []
        real_mono, real_async_sleep = time.monotonic, asyncio.sleep
        clock = self

        def sleep(s):
            clock.sleeps.append(s)
            clock.offset += max(0.0, s)

        async def asleep(delay, result=None):
            if delay and delay > 0:
                clock.sleeps.append(delay)
                clock.offset += delay
            return await real_async_sleep(0, result)
        time.sleep = sleep
        asyncio.sleep = asleep
        time.monotonic = lambda: real_mono() + clock.offset

    def take(self):
        s, self.sleeps = self.sleeps, []
        return s


def dur(s):
    return float(s[:-1])


def entry_for(cfg, pkg, svc, meth):
    for e in (cfg or {}).get("methodConfig", []):
        for n in e.get("name", []):
            if n.get("service") == f"{pkg}.{svc}" and n.get("method") == meth:
                return e
    return None


def exercise(ctx):
    from .c01 import import_all
    import_all(ctx)
    clock = Clock()
    rig = Rig(ctx)
    classes = values.classes_of(ctx.pool)
    n = int(ctx.inner.get("n", 10))
    cfg = ctx.options.get("retry_config")
    from google.api_core import retry as retries, retry_async, exceptions as core_exceptions
    for f, svc in ctx.services():
        for m in svc["methods"]:
            if m.get("cs") or m.get("ss") or m.get("lro") is not None:
                continue
            in_desc, out_desc = ctx.descriptor(m["input"]), ctx.descriptor(m["output"])
            path_ = f"/{f['package']}.{svc['name']}/{m['name']}"
            entry = entry_for(cfg, f["package"], svc["name"], m["name"])
            policy = (entry or {}).get("retryPolicy")
            T = dur(entry["timeout"]) if entry and "timeout" in entry else None
            listed = list(policy["retryableStatusCodes"]) if policy else []
            unlisted = [c for c in CODES[1:] if c not in listed]
            ctx.cls("entry:" + ("none" if entry is None else ("policy" if policy else "timeout-only") + ("+timeout" if T is not None and policy else "")))
            for c in listed:
                ctx.cls("code:" + c)
            reply = classes(out_desc)().SerializeToString()

            @st.composite
            def scenario(draw, listed=listed, unlisted=unlisted, policy=policy, T=T, entry=entry):
                kind = draw(st.sampled_from(["sync", "async"]))
                modes = ["ok"]
                if entry is None:
                    modes += ["unnamed-fault", "unnamed-fault"]
                if policy:
                    modes += ["retry-then-ok"] * 3 + ["non-retryable"] * 2
                    if T is not None and T <= 60 and dur(policy["initialBackoff"]) >= 0.25:
                        modes.append("forever")
                    if T is None and dur(policy["maxBackoff"]) >= 1.0 and dur(policy["initialBackoff"]) >= 0.25 and float(policy["backoffMultiplier"]) > 1.0:
                        # an entry with a retry policy and no timeout: retrying is not bounded in time by the config
                        modes.append("outlast")
                elif entry is not None:
                    modes += ["non-retryable"]
                modes += ["override-timeout", "override-retry"]
                mode = draw(st.sampled_from(modes))
                kmax = max(0, min(4, (policy or {}).get("maxAttempts", 5) - 1))
                if policy and T is not None:
                    # the retry sequence has to fit into the overall retry deadline (the entry's timeout), in fake time
                    init, mx, mult = dur(policy["initialBackoff"]), dur(policy["maxBackoff"]), float(policy["backoffMultiplier"])
                    total, fit = 0.0, 0
                    for i in range(kmax):
                        total += min(init * mult ** i, mx)
                        if total < 0.8 * T:
                            fit = i + 1
                    kmax = fit
                k = draw(st.integers(0, kmax))
                faults = [draw(st.sampled_from(listed)) for _ in range(k)] if listed else []
                bad = draw(st.sampled_from(unlisted))
                return kind, mode, faults, bad, draw(st.integers(1, 4))

            def one(sc, f=f, svc=svc, m=m, path_=path_, entry=entry, policy=policy, T=T, listed=listed, in_desc=in_desc):
                kind, mode, faults, bad, kov = sc
                script = []
                if mode == "retry-then-ok":
                    script = list(faults)
                elif mode in ("non-retryable", "unnamed-fault"):
                    script = [bad if mode == "non-retryable" else "UNAVAILABLE"]
                elif mode == "override-retry":
                    script = [bad] * kov
                state = {"i": 0, "t0": clock.offset}

                def respond(rec):
                    i = state["i"]
                    state["i"] += 1
                    if mode == "forever" and i < 3000:
                        raise GrpcError(getattr(grpc.StatusCode, listed[i % len(listed)]), "scripted")
                    if mode == "outlast" and clock.offset - state["t0"] < 150.0 and i < 3000:
                        raise GrpcError(getattr(grpc.StatusCode, listed[i % len(listed)]), "scripted")
                    if i < len(script):
                        raise GrpcError(getattr(grpc.StatusCode, script[i]), "scripted")
                    return reply
                rig.grpc.respond = respond
                rig.grpc.take()
                clock.take()
                client = rig.client(f, svc, kind)
                meth = getattr(client, client_method_name(m["name"]))
                kw = {"request": to_python(ctx, m["input"], classes(in_desc)())}
                if mode == "override-timeout":
                    kw["timeout"] = 7.5
                if mode == "override-retry":
                    exc_cls = core_exceptions.exception_class_for_grpc_status(getattr(grpc.StatusCode, bad))
                    R = retries.Retry if kind == "sync" else retry_async.AsyncRetry
                    kw["retry"] = R(predicate=retries.if_exception_type(exc_cls), initial=0.01, maximum=0.02, multiplier=1.0, timeout=50.0)
                if (policy and mode in ("retry-then-ok", "forever", "outlast") and (faults or mode != "retry-then-ok")) or mode.startswith("override"):
                    ctx.nontrivial([("policy" if policy else "timeout" if entry else "none"), T is not None, mode, len(script), sorted(set(script))[:2], kind])
                detail = {"rpc": path_, "client": kind, "mode": mode, "entry": entry, "script": script}
                t0 = REAL_MONOTONIC()
                exc = None
                try:
                    if kind == "sync":
                        meth(**kw)
                    else:
                        async def go():
                            await meth(**kw)
                        rig.run(go())
                except Exception as e:
                    exc = e
                calls = [c for c in rig.grpc.take() if c["method"] == path_]
                waits = clock.take()
                detail.update({"attempts": len(calls), "waits": [round(w, 4) for w in waits][:12], "deadlines": [round(c["time_remaining"], 3) if c["time_remaining"] < NO_DEADLINE else None for c in calls][:8],
                               "exception": f"{type(exc).__name__}: {str(exc)[:120]}" if exc else None})

                def deadlines(limit, what):
                    for i, c in enumerate(calls[:50]):
                        tr = c["time_remaining"]
                        if limit is None:
                            if tr < NO_DEADLINE:
                                raise Fail("deadline-unexpected", f"{path_} ({kind}, {mode}): attempt {i} carries a deadline of {tr:.2f}s; {what}", detail)
                        else:
                            elapsed = c["t_real"] - t0
                            if tr > limit * 1.005 + 0.25:      # gRPC reports time_remaining with a small positive rounding error
                                raise Fail("deadline-too-long", f"{path_} ({kind}, {mode}): attempt {i} has {tr:.2f}s remaining, more than {limit}s ({what})", detail)
                            if tr < limit - elapsed - 0.35 and mode != "forever":
                                raise Fail("deadline-too-short", f"{path_} ({kind}, {mode}): attempt {i} has {tr:.2f}s remaining after {elapsed:.2f}s; {what} is {limit}s", detail)

                if mode == "ok":
                    if exc is not None or len(calls) != 1:
                        raise Fail("plain-call", f"{path_} ({kind}): plain call: {len(calls)} attempts, exception {exc!r}", detail)
                    deadlines(T, "the service-config timeout" if T is not None else "the method has no configured timeout")
                elif mode == "unnamed-fault":
                    if exc is None or len(calls) != 1:
                        raise Fail("unnamed-retried", f"{path_} ({kind}): method is not named in the service config but a failing call made {len(calls)} attempts "
                                   f"(exception {type(exc).__name__ if exc else None})", detail)
                    deadlines(None, "the method is not named in the service config")
                elif mode == "non-retryable":
                    if exc is None or len(calls) != 1:
                        raise Fail("unlisted-code-retried", f"{path_} ({kind}): status {bad} is not in retryableStatusCodes {listed} but the call made {len(calls)} attempts", detail)
                elif mode == "retry-then-ok":
                    if exc is not None:
                        raise Fail("listed-code-not-retried", f"{path_} ({kind}): faults {script} are all in retryableStatusCodes {listed} but the call raised {type(exc).__name__}", detail)
                    if len(calls) != len(script) + 1:
                        raise Fail("attempt-count", f"{path_} ({kind}): {len(calls)} attempts for {len(script)} retryable faults", detail)
                    init, mx, mult = dur(policy["initialBackoff"]), dur(policy["maxBackoff"]), float(policy["backoffMultiplier"])
                    if len(waits) != len(script):
                        raise Fail("wait-count", f"{path_} ({kind}): {len(waits)} waits between {len(calls)} attempts", detail)
                    for i, w in enumerate(waits):
                        bound = min(init * (mult ** i), mx)
                        if w > bound + 1e-9:
                            raise Fail("backoff", f"{path_} ({kind}): wait {i} is {w:.3f}s, more than min(initialBackoff*multiplier^{i}, maxBackoff) = {bound:.3f}s", detail)
                    deadlines(T, "the service-config timeout" if T is not None else "the entry has no timeout")
                elif mode == "forever":
                    if exc is None:
                        raise Fail("never-gave-up", f"{path_} ({kind}): the server failed {len(calls)} times with retryable codes and the call still returned", detail)
                    total = sum(waits)
                    mx = dur(policy["maxBackoff"])
                    if total > T + mx + 1e-6:
                        raise Fail("retry-deadline", f"{path_} ({kind}): retried for {total:.2f}s of (fake) time, the entry's timeout is {T}s", detail)
                    if total < T - mx - max(1.0, 0.05 * T) and len(calls) < 3000:
                        raise Fail("retry-deadline-short", f"{path_} ({kind}): gave up after {total:.2f}s of (fake) time, the entry's timeout is {T}s", detail)
                elif mode == "outlast":
                    # retryable faults for 150 s of (fake) time, then OK: with no timeout in the entry the call has to get there
                    if exc is not None:
                        raise Fail("retry-gave-up", f"{path_} ({kind}): the entry has a retryPolicy and no timeout, the server recovered after 150s of (fake) time "
                                   f"and {len(calls)} attempts, but the call raised {type(exc).__name__}: {str(exc)[:120]}", detail)
                elif mode == "override-timeout":
                    if exc is not None or len(calls) != 1:
                        raise Fail("plain-call", f"{path_} ({kind}): {len(calls)} attempts, exception {exc!r}", detail)
                    deadlines(7.5, "the explicit per-call timeout")
                elif mode == "override-retry":
                    if exc is not None or len(calls) != len(script) + 1:
                        raise Fail("override-retry-ignored", f"{path_} ({kind}): explicit retry on {bad}: {len(calls)} attempts for {len(script)} faults, exception {type(exc).__name__ if exc else None}", detail)

            forall(ctx, scenario(), one, n, label=m["name"], shrink=False)
            ctx.count("methods_exercised")
    if "rest" in ctx.options.get("transport", ""):
        rest_leg(ctx, rig, classes, cfg)
    ctx.sample({"inner_evaluations": ctx.counters.get("inner_evaluations", 0), "methods": ctx.counters.get("methods_exercised", 0),
                "config": cfg if cfg and len(str(cfg)) < 1500 else "(large)"})


def rest_leg(ctx, rig, classes, cfg):
    """The timeout that reaches the HTTP session of the emitted REST transport (unary and server-streaming methods with a
    binding): the service-config timeout of the method, or the explicit per-call timeout. Observed at the boundary between the
    emitted transport and the HTTP library (AuthorizedSession.request is wrapped; the call still goes to the loopback server)."""
    from google.auth.transport import requests as auth_requests
    from google.protobuf import json_format
    from .c06 import set_string
    from .c08 import strip_unqueryable
    from ..refmodels import transcoding as TR
    seen = []
    orig = auth_requests.AuthorizedSession.request

    def recording(self, method, url, *a, **kw):
        seen.append(kw.get("timeout", "absent"))
        return orig(self, method, url, *a, **kw)
    auth_requests.AuthorizedSession.request = recording
    try:
        for f, svc in ctx.services():
            for m in svc["methods"]:
                if m.get("cs") or not m.get("http") or m.get("lro") is not None or m["output"] == ".google.longrunning.Operation":
                    continue
                entry = entry_for(cfg, f["package"], svc["name"], m["name"])
                T = dur(entry["timeout"]) if entry and "timeout" in entry else None
                dyn = classes(ctx.descriptor(m["input"]))()
                for seg in TR.parse_uri(m["http"]["uri"])[0]:
                    if seg[0] == "var":
                        set_string(dyn, seg[1], "/".join("x1" if s_ in ("*", "**") else s_ for s_ in seg[2]))
                req = to_python(ctx, m["input"], dyn)
                out = json_format.MessageToJson(classes(ctx.descriptor(m["output"]))())
                body = "[" + out + "]" if m.get("ss") else out
                rig.http.respond = lambda rec, body=body: (200, body, {})
                client = rig.client(f, svc, "rest")
                meth = getattr(client, client_method_name(m["name"]))
                what = f"{svc['name']}.{m['name']} (rest{', server-streaming' if m.get('ss') else ''})"
                for mode, kw, limit in (("ok", {}, T), ("override-timeout", {"timeout": 7.5}, 7.5)):
                    del seen[:]
                    rig.http.take()
                    t0 = REAL_MONOTONIC()
                    try:
                        r = meth(request=req, **kw)
                        if m.get("ss"):
                            list(r)
                    except NotImplementedError:
                        break
                    except Exception as e:
                        ctx.violation("rest-call-raised", f"{what}: {type(e).__name__}: {str(e)[:200]}")
                        break
                    elapsed = REAL_MONOTONIC() - t0
                    ctx.count("rest_timeout_observations")
                    ctx.nontrivial(["rest-timeout", mode, T is not None, bool(m.get("ss"))])
                    if len(seen) != 1:
                        ctx.violation("rest-request-count", f"{what}, {mode}: {len(seen)} HTTP requests issued")
                        break
                    got = seen[0]
                    if limit is None:
                        if got not in (None, "absent"):
                            ctx.violation("rest-timeout-unexpected", f"{what}, {mode}: the method has no configured timeout but the HTTP request carries timeout={got!r}")
                    elif not isinstance(got, (int, float)) or got > limit * 1.005 + 0.25 or got < limit - elapsed - 0.35:
                        ctx.violation("rest-timeout", f"{what}, {mode}: the HTTP request carries timeout={got!r}, expected about {limit}s "
                                      f"({'the service-config timeout' if mode == 'ok' else 'the explicit per-call timeout'})")
    finally:
        auth_requests.AuthorizedSession.request = orig
