"""C03 — gRPC calls reach the right RPC with the caller's request and return the reply."""
from hypothesis import strategies as st
from google.longrunning import operations_pb2

from .base import Fail, forall, client_method_name
from . import values
from .rig import Rig, python_class, to_python, to_bytes
from ..strategies import RESERVED
from .. import model as M


def top_dict(ctx, full_name, dyn):
    """dict form of a request: top-level set fields keyed by python attribute name."""
    cls, pp = python_class(ctx, full_name)
    obj = to_python(ctx, full_name, dyn)
    out = {}
    for fd, _ in dyn.ListFields():
        attr = fd.name + "_" if (pp and fd.name in RESERVED) else fd.name
        is_map = fd.message_type is not None and fd.message_type.GetOptions().map_entry
        if pp and (fd.message_type is not None) and fd.label != fd.LABEL_REPEATED:
            # hand message-typed fields over as raw protobuf messages: the runtime's marshal converts
            # well-known types to native values (datetime, ...) lossily, which is not the generator's doing
            out[attr] = getattr(type(obj).pb(obj), attr)
            continue
        if pp and fd.message_type is not None:
            vt = fd.message_type.fields_by_name["value"].message_type if is_map else fd.message_type
            if vt is not None and vt.full_name.startswith("google.protobuf."):
                return None     # the runtime's marshal rules for repeated well-known types reject raw lists; not judged
            raw = getattr(type(obj).pb(obj), attr)
            out[attr] = dict(raw) if is_map else list(raw)
            continue
        v = getattr(obj, attr)
        if is_map:
            v = dict(v)
        elif fd.label == fd.LABEL_REPEATED:
            v = list(v)
        out[attr] = v
    return out


def is_paged_model(ctx, m):
    """reference AIP-4233 predicate on the INPUT descriptors (used only to know how to unwrap the result)."""
    try:
        i = ctx.descriptor(m["input"]); o = ctx.descriptor(m["output"])
    except KeyError:
        return False
    if m.get("cs") or m.get("ss"):
        return False
    pt = i.fields_by_name.get("page_token"); nt = o.fields_by_name.get("next_page_token")
    ps = i.fields_by_name.get("page_size") or i.fields_by_name.get("max_results")
    rep = [f for f in o.fields if f.label == f.LABEL_REPEATED]
    return bool(pt and nt and ps and rep)


def second_client_check(ctx, rig, f, svc, classes):
    """Two clients of one service, each on its own channel to its own server: a call made through the second client
    arrives at the second server only (no state shared between client / transport instances)."""
    m = next((x for x in svc["methods"] if not x.get("cs") and not x.get("ss")), None)
    if m is None:
        return
    path = f"/{f['package']}.{svc['name']}/{m['name']}"
    out_cls = classes(ctx.descriptor(m["output"]))
    reply = out_cls().SerializeToString()
    for kind in ("sync", "async"):
        def call(client):
            meth = getattr(client, client_method_name(m["name"]))
            req = to_python(ctx, m["input"], classes(ctx.descriptor(m["input"]))())
            if kind == "sync":
                return meth(request=req)

            async def go():
                return await meth(request=req)
            return rig.run(go())
        a, b = rig.grpc, rig.second_server()
        a.respond = b.respond = lambda rec: reply
        try:
            call(rig.client(f, svc, kind))          # the first client is in use before the second one exists
            second = rig.fresh_client_b(f, svc, kind)
            a.take(), b.take()
            call(second)
        except Exception as e:
            ctx.violation("second-client-raised", f"{path} ({kind}): {type(e).__name__}: {str(e)[:200]}")
            continue
        ca, cb = a.take(), b.take()
        ctx.count("second_client_calls")
        if [c["method"] for c in cb] != [path] or ca:
            ctx.violation("second-client-channel", f"{path} ({kind}): a call through a second client on its own channel reached its server "
                          f"{len(cb)} time(s) and the FIRST client's server {len(ca)} time(s)")
    # the same over REST (two endpoints), for a method with an HTTP binding
    if "rest" not in ctx.options.get("transport", ""):
        return
    m = next((x for x in svc["methods"] if not x.get("cs") and not x.get("ss") and x.get("http") and not x.get("lro")
              and x["output"] != ".google.longrunning.Operation"), None)
    if m is None:
        return
    from .c06 import set_string
    from ..refmodels import transcoding as T
    from google.protobuf import json_format
    dyn = classes(ctx.descriptor(m["input"]))()
    for seg in T.parse_uri(m["http"]["uri"])[0]:
        if seg[0] == "var":
            set_string(dyn, seg[1], "/".join("x1" if s_ in ("*", "**") else s_ for s_ in seg[2]))
    req = to_python(ctx, m["input"], dyn)
    body = json_format.MessageToJson(classes(ctx.descriptor(m["output"]))())
    try:
        first = rig.client(f, svc, "rest")
        rig.http.respond = lambda rec: (200, body, {})
        getattr(first, client_method_name(m["name"]))(request=req)
        second, hb = rig.fresh_rest_client_b(f, svc)
        hb.respond = lambda rec: (200, body, {})
        rig.http.take(), hb.take()
        getattr(second, client_method_name(m["name"]))(request=req)
    except Exception as e:
        ctx.violation("second-client-raised", f"{m['name']} (rest): {type(e).__name__}: {str(e)[:200]}")
        return
    ca, cb = rig.http.take(), hb.take()
    ctx.count("second_client_calls")
    if len(cb) != 1 or ca:
        ctx.violation("second-client-channel", f"{m['name']} (rest): a call through a second client on its own endpoint reached its server "
                      f"{len(cb)} time(s) and the FIRST client's server {len(ca)} time(s)")


def exercise(ctx):
    from .c01 import import_all
    import_all(ctx)
    rig = Rig(ctx)
    classes = values.classes_of(ctx.pool)
    n = int(ctx.inner.get("n", 8))
    for f, svc in ctx.services():
        for m in svc["methods"]:
            path = f"/{f['package']}.{svc['name']}/{m['name']}"
            in_desc, out_desc = ctx.descriptor(m["input"]), ctx.descriptor(m["output"])
            cs, ss = bool(m.get("cs")), bool(m.get("ss"))
            lro = m.get("lro") is not None and m["output"] == ".google.longrunning.Operation"
            void = m["output"] == ".google.protobuf.Empty"
            req_s = values.message(in_desc, classes, max_depth=2)
            rep_s = values.message(out_desc, classes, max_depth=2)
            if lro:
                rep_s = st.builds(lambda name: operations_pb2.Operation(name=name, done=True),
                                  st.sampled_from(["operations/1", "operations/abc", "ops/x/y"]))

            @st.composite
            def scenario(draw, req_s=req_s, rep_s=rep_s, cs=cs, ss=ss):
                reqs = draw(st.lists(req_s, min_size=0, max_size=3)) if cs else [draw(req_s)]
                reps = draw(st.lists(rep_s, min_size=0, max_size=3)) if ss else [draw(rep_s)]
                form = draw(st.sampled_from(["msg", "msg", "dict", "omitted"])) if not cs else "msg"
                kind = draw(st.sampled_from(["sync", "async"]))
                return reqs, reps, form, kind

            origin = ("dep" if m["input"].startswith(".google.") else "local", "dep" if m["output"].startswith(".google.") else "local")
            ctx.cls(f"arity:{'bidi' if cs and ss else 'cs' if cs else 'ss' if ss else 'unary'}")
            if not (not cs and not ss and origin == ("local", "local") and not void and not lro):
                ctx.nontrivial(["rpc", cs, ss, void, lro, origin])

            def one(sc, f=f, svc=svc, m=m, path=path, in_desc=in_desc, out_desc=out_desc, cs=cs, ss=ss, lro=lro, void=void):
                reqs, reps, form, kind = sc
                if not (not cs and not ss and m["input"].startswith("." + f["package"]) and not void and not lro and form == "msg"):
                    ctx.nontrivial(["rpc", cs, ss, void, lro, m["input"].startswith(".google."), m["output"].startswith(".google."),
                                    form, kind, len(reqs), len(reps)])
                dyn_in = classes(in_desc)
                paged = is_paged_model(ctx, m)
                if paged:
                    for r in reps:
                        r.next_page_token = ""
                if form == "omitted":
                    expect = [dyn_in()]
                else:
                    expect = reqs
                rig.grpc.take()
                rig.grpc.respond = lambda rec: [x.SerializeToString(deterministic=True) for x in reps] if ss else reps[0].SerializeToString(deterministic=True)
                client = rig.client(f, svc, kind)
                meth = getattr(client, client_method_name(m["name"]), None)
                if meth is None:
                    raise Fail("method-missing", f"{type(client).__name__} has no method {client_method_name(m['name'])!r} for RPC {m['name']}")
                if cs:
                    pyreqs = [to_python(ctx, m["input"], r) for r in reqs]
                    args, kwargs = (), {"requests": iter(pyreqs)}
                elif form == "msg":
                    args, kwargs = (), {"request": to_python(ctx, m["input"], reqs[0])}
                elif form == "dict":
                    dct = top_dict(ctx, m["input"], reqs[0])
                    if dct is None:
                        ctx.cls("dict-form-skipped: repeated well-known type")
                        dct = to_python(ctx, m["input"], reqs[0])
                    args, kwargs = (), {"request": dct}
                else:
                    args, kwargs = (), {}
                detail = {"rpc": path, "form": form, "client": kind, "requests": [str(r)[:300] for r in reqs], "replies": [str(r)[:300] for r in reps]}
                try:
                    if kind == "sync":
                        res = meth(*args, **kwargs)
                        if ss:
                            got = list(res)
                        elif paged and not void:
                            got = [next(iter(res.pages))]
                        elif lro:
                            got = [res.operation]
                        else:
                            got = [res]
                    else:
                        async def go():
                            if cs:
                                async def agen():
                                    for r in pyreqs:
                                        yield r
                                kwargs["requests"] = agen()
                            r = meth(*args, **kwargs)
                            if ss:
                                stream = await r
                                return [x async for x in stream]
                            r = await r
                            if cs and hasattr(r, "__await__"):
                                # api-core returns the grpc.aio StreamUnaryCall; it resolves to the response
                                ctx.cls("async-client-streaming: call object awaited a second time")
                                r = await r
                            if paged and not void:
                                async for page in r.pages:
                                    return [page]
                            if lro:
                                return [r.operation]
                            return [r]
                        got = rig.run(go())
                except Exception as e:
                    import traceback
                    raise Fail("call-raised", f"{path} ({kind}, {form}): {type(e).__name__}: {str(e)[:300]}", dict(detail, traceback=traceback.format_exc()[-1800:]))
                calls = rig.grpc.take()
                if len(calls) != 1:
                    raise Fail("call-count", f"{path} ({kind}): {len(calls)} calls on the channel, expected exactly one: {[c['method'] for c in calls]}", detail)
                c = calls[0]
                if c["method"] != path:
                    raise Fail("rpc-path", f"call went to {c['method']}, expected {path}", detail)
                seen = [dyn_in.FromString(b) for b in c["requests"]]
                if seen != expect:
                    raise Fail("request-payload", f"{path} ({kind}, {form}): server decoded {[str(s)[:200] for s in seen]}, caller sent {[str(s)[:200] for s in expect]}", detail)
                # reply
                if void and not ss:
                    if got != [None]:
                        raise Fail("void-return", f"{path} ({kind}): Empty response returned {got!r}, expected None", detail)
                    return
                if len(got) != len(reps):
                    raise Fail("reply-count", f"{path} ({kind}): caller received {len(got)} messages, server sent {len(reps)}", detail)
                dyn_out = classes(out_desc) if not lro else operations_pb2.Operation
                for g, r in zip(got, reps):
                    if void:
                        gb = b"" if g is None else to_bytes(g)
                    else:
                        gb = to_bytes(g)
                    if dyn_out.FromString(gb) != r:
                        raise Fail("reply-payload", f"{path} ({kind}): caller received {str(dyn_out.FromString(gb))[:300]!r}, server sent {str(r)[:300]!r}", detail)

            forall(ctx, scenario(), one, n, label=m["name"], shrink=False)
            ctx.count("methods_exercised")
        second_client_check(ctx, rig, f, svc, classes)
    ctx.sample({"services": [s["name"] for _, s in ctx.services()], "inner_evaluations": ctx.counters.get("inner_evaluations", 0)})
