"""C17 — mixin RPCs on the emitted clients."""
import json, urllib.parse
from hypothesis import strategies as st
from google.protobuf import json_format, symbol_database

from .base import Fail, forall, snake, client_method_name
from .rig import Rig
from .c04 import var_value
from .c06 import header_pairs
from ..refmodels import mixins as MX, transcoding as T


def fits(rule, field, val):
    segs = dict((s[1], s[2]) for s in T.parse_uri(rule["uri"])[0] if s[0] == "var")[field]
    parts = val.split("/")
    return len(parts) == len(segs) and all(s == "*" or s == p for s, p in zip(segs, parts))


def cls_of(full):
    return symbol_database.Default().GetSymbol(full)


def exercise(ctx):
    from .c01 import import_all
    import_all(ctx)
    rig = Rig(ctx)
    expected = set(ctx.inner["expected"])
    transports = ctx.options["transport"].split("+")
    yaml_rules = {}
    for r in ((ctx.options.get("service_yaml") or {}).get("http") or {}).get("rules", []):
        bs = []
        for b in [r] + list(r.get("additional_bindings", [])):
            verb = next(v for v in ("get", "post", "put", "patch", "delete") if v in b)
            bs.append({"verb": verb, "uri": b[verb], "body": b.get("body")})
        yaml_rules[r["selector"]] = bs
    own_iam = MX.own_iam_rpcs(ctx.api)
    kinds = (["sync", "async"] if "grpc" in transports else []) + (["rest"] if "rest" in transports else [])
    for f, svc in ctx.services():
        own_here = {m["name"] for m in svc["methods"]}
        for kind in kinds:
            client = rig.client(f, svc, kind)
            for rpc, (api, field, req_t, resp_t) in sorted(MX.ALL_RPCS.items()):
                name = snake(rpc)
                has = callable(getattr(client, name, None))
                if rpc in own_here:
                    continue            # the API's own RPC of that name (checked below)
                if own_iam and rpc in MX.IAM:
                    # the API defines IAM RPCs itself: the statement fixes that they are not shadowed (checked below);
                    # which of the remaining IAM mixins stay exposed is not fixed by it -> measured
                    ctx.cls(f"iam-override: {name} {'present' if has else 'absent'} (measured)")
                    continue
                want = rpc in expected
                if kind == "rest" and ctx.options.get("add_iam_methods") and rpc in MX.IAM:
                    ctx.cls("rest + add-iam-methods: legacy gRPC option, IAM names on the REST client measured only")
                    continue
                if has != want:
                    ctx.violation("mixin-exposure", f"{svc['name']} {kind} client: {name} {'present' if has else 'absent'}; service YAML lists "
                                  f"{[a['name'] for a in ctx.options['service_yaml']['apis']]} with rules {sorted(yaml_rules)}; own IAM RPCs {sorted(own_iam)}; "
                                  f"add-iam-methods={ctx.options.get('add_iam_methods')} => expected {'present' if want else 'absent'}")
                    continue
                if not has:
                    continue
                rules = yaml_rules.get(f"{api}.{rpc}") or []
                req_cls = cls_of(req_t)
                resp_cls = cls_of(resp_t) if resp_t else None

                def one(bv, client=client, kind=kind, rpc=rpc, api=api, field=field, req_cls=req_cls, resp_cls=resp_cls, rules=rules, name=name):
                    bi, val = bv
                    # the binding that has to be used: the first one (primary first) whose path pattern the name fits
                    rule = next((r for r in rules if fits(r, field, val)), rules[0] if rules else None)
                    if rules:
                        ctx.cls("mixin-binding:" + ("primary" if rule is rules[0] else "additional"))
                    req = req_cls(**{field: val})
                    reply = resp_cls() if resp_cls else None
                    if reply is not None and hasattr(reply, "name"):
                        reply.name = "reply/" + val
                    path = f"/{api}/{rpc}"
                    meth = getattr(client, name)
                    what = f"{svc['name']}.{name} ({kind})"
                    try:
                        if kind == "rest":
                            rig.http.respond = lambda rec: (200, json_format.MessageToJson(reply) if reply is not None else "{}", {})
                            rig.http.take()
                            got = meth(request=req)
                            calls = rig.http.take()
                        else:
                            from google.protobuf import empty_pb2
                            rig.grpc.respond = lambda rec: (reply if reply is not None else empty_pb2.Empty()).SerializeToString()
                            rig.grpc.take()
                            if kind == "sync":
                                got = meth(request=req)
                            else:
                                async def go():
                                    return await meth(request=req)
                                got = rig.run(go())
                            calls = rig.grpc.take()
                    except Exception as e:
                        import traceback
                        raise Fail("mixin-call-raised", f"{what}: {type(e).__name__}: {str(e)[:300]}", {"traceback": traceback.format_exc()[-1200:]})
                    if len(calls) != 1:
                        raise Fail("mixin-call-count", f"{what}: {len(calls)} requests on the wire")
                    c = calls[0]
                    if kind == "rest":
                        if c["verb"] != rule["verb"].upper():
                            raise Fail("mixin-rest-verb", f"{what}: sent {c['verb']} {c['raw_path']}, the YAML rule is {rule}")
                        caps = T.match_path(rule["uri"], c["path"])
                        if caps is None or caps.get(field) != val:
                            raise Fail("mixin-rest-path", f"{what}: sent {c['verb']} {c['raw_path']}, the YAML rule is {rule} with {field}={val!r}")
                        if rule.get("body"):
                            try:
                                json.loads(c["body"].decode() or "{}")
                            except ValueError:
                                raise Fail("mixin-rest-body", f"{what}: body is not JSON: {c['body'][:100]!r}")
                        elif c["body"] not in (b"", b"{}"):
                            raise Fail("mixin-rest-body", f"{what}: rule has no body but {len(c['body'])} bytes were sent")
                    else:
                        if c["method"] != path:
                            raise Fail("mixin-grpc-path", f"{what}: called {c['method']}, the canonical path is {path}")
                        if req_cls.FromString(c["requests"][0]) != req:
                            raise Fail("mixin-grpc-request", f"{what}: server decoded a different {req_cls.__name__}")
                        hp = header_pairs(c["metadata"], what)
                        if hp is None or dict(hp[1]).get(field) != val:
                            raise Fail("mixin-routing-header", f"{what}: routing header {hp[0] if hp else None!r}, expected {field}={val!r}")
                    if resp_cls is None:
                        if got is not None:
                            raise Fail("mixin-response", f"{what}: returned {got!r}, expected None")
                    elif rpc.startswith("List") and kind != "x":
                        pass        # list mixins return the raw response message (not a pager); content compared below when plain
                    if resp_cls is not None and not rpc.startswith("List"):
                        if type(got).__name__ != resp_cls.__name__ or resp_cls.FromString(got.SerializeToString()) != reply:
                            raise Fail("mixin-response", f"{what}: returned {type(got).__name__} {str(got)[:100]!r}, server sent {resp_cls.__name__} {str(reply)[:100]!r}")
                seglists = [dict((s[1], s[2]) for s in T.parse_uri(r["uri"])[0] if s[0] == "var")[field] for r in rules] or [["projects", "*", "things", "*"]]
                strat = st.integers(0, len(seglists) - 1).flatmap(lambda i: st.tuples(st.just(i), var_value(seglists[i])))
                forall(ctx, strat, one, int(ctx.inner.get("n", 3)) + (2 if len(seglists) > 1 else 0), label=name, shrink=False)
                ctx.count("mixin_methods_exercised")
        # the API's own IAM-named RPCs still reach their own service
        for m in svc["methods"]:
            if m["name"] in MX.IAM and "grpc" in transports:
                client = rig.client(f, svc, "sync")
                req_cls = cls_of(MX.ALL_RPCS[m["name"]][2])
                rig.grpc.respond = lambda rec: cls_of(m["output"].lstrip("."))().SerializeToString()
                rig.grpc.take()
                try:
                    getattr(client, client_method_name(m["name"]))(request=req_cls(resource="shelves/s1"))
                except Exception as e:
                    ctx.violation("own-iam-call-raised", f"{svc['name']}.{m['name']}: {type(e).__name__}: {str(e)[:200]}")
                    continue
                calls = rig.grpc.take()
                want = f"/{f['package']}.{svc['name']}/{m['name']}"
                if [c["method"] for c in calls] != [want]:
                    ctx.violation("own-iam-shadowed", f"{svc['name']}.{snake(m['name'])} called {[c['method'] for c in calls]}, the API's own RPC is {want}")
                ctx.count("own_iam_checked")
    ctx.sample({"expected": sorted(expected), "mixin_methods_exercised": ctx.counters.get("mixin_methods_exercised", 0)})
