"""C01 (import side): the emitted package and every sub-module import; the package exposes the
requested clients with exactly the requested transports; gRPC is the default when requested."""
import importlib, pkgutil, traceback

LABELS = {"grpc": "GrpcTransport", "grpc_asyncio": "GrpcAsyncIOTransport", "rest": "RestTransport"}


def import_all(ctx, kind="import"):
    mods = {}
    for name in {ctx.naming["versioned_import"], ctx.naming["unversioned_import"]}:
        try:
            top = importlib.import_module(name)
        except BaseException as e:
            ctx.violation(f"{kind}-package", f"import {name} raised {type(e).__name__}: {e}",
                          {"traceback": traceback.format_exc()[-2500:]}, stop=True)
        mods[name] = top
        errors = []
        for info in pkgutil.walk_packages(top.__path__, name + ".", onerror=lambda n: errors.append(n)):
            try:
                mods[info.name] = importlib.import_module(info.name)
            except BaseException as e:
                ctx.violation(f"{kind}-module", f"import {info.name} raised {type(e).__name__}: {e}",
                              {"traceback": traceback.format_exc()[-2500:]}, stop=True)
        ctx.count("modules_imported", len(mods))
    return mods


def exercise(ctx):
    mods = import_all(ctx)
    pkg = mods[ctx.naming["versioned_import"]]
    transports = ctx.options.get("transport", "grpc").split("+")
    want = set()
    if "grpc" in transports:
        want |= {"grpc", "grpc_asyncio"}
    if "rest" in transports:
        want.add("rest")
    for f, svc in ctx.services():
        if f["package"] != ctx.naming["root_package"]:
            ctx.cls("service-in-subpackage (not judged here)")
            continue
        name = svc["name"]
        client = getattr(pkg, f"{name}Client", None)
        if client is None:
            ctx.violation("client-missing", f"package {pkg.__name__} has no {name}Client")
            continue
        has_async = hasattr(pkg, f"{name}AsyncClient")
        if "grpc" in transports and not has_async and ctx.options.get("ads"):
            ctx.cls("ads templates: no asyncio client (the alternative template set is sync-only; measured)")
        elif "grpc" in transports and not has_async:
            ctx.violation("async-client-missing", f"gRPC requested but {pkg.__name__} has no {name}AsyncClient")
        ctx.cls(f"async-client:{has_async}:grpc-requested:{'grpc' in transports}")
        ads = bool(ctx.options.get("ads"))
        for label, suffix in LABELS.items():
            if ads and label == "grpc_asyncio":
                continue          # the alternative (ads) template set is sync-only: measured above, not judged
            try:
                t = client.get_transport_class(label)
            except Exception:
                t = None
            if label in want:
                if t is None or not t.__name__.endswith(suffix):
                    ctx.violation("transport-missing", f"{name}Client.get_transport_class({label!r}) -> {t}; requested transports {transports}")
            elif t is not None:
                ctx.violation("transport-extra", f"{name}Client offers transport {label!r} although only {transports} were requested")
        try:
            default = client.get_transport_class()
        except Exception as e:
            ctx.violation("transport-default", f"{name}Client.get_transport_class() raised {type(e).__name__}: {e}")
            continue
        exp = "GrpcTransport" if "grpc" in transports else "RestTransport"
        if not default.__name__.endswith(exp) or default.__name__.endswith("GrpcAsyncIOTransport") and exp == "GrpcTransport" and False:
            ctx.violation("transport-default", f"default transport of {name}Client is {default.__name__}, expected *{exp}")
        if exp == "GrpcTransport" and "AsyncIO" in default.__name__:
            ctx.violation("transport-default", f"default transport of {name}Client is {default.__name__}, expected the sync gRPC transport")
        ctx.count("services_checked")
