"""Loopback rig: servers + emitted clients (sync gRPC, asyncio gRPC, REST) for one emitted library."""
import asyncio, importlib

import grpc
from google.protobuf import symbol_database

from . import servers
from .base import client_method_name, module_of_file, snake

MIXIN_ARITIES = {}
for _svc, _ms in (("google.longrunning.Operations", ["ListOperations", "GetOperation", "DeleteOperation", "CancelOperation", "WaitOperation"]),
                  ("google.iam.v1.IAMPolicy", ["SetIamPolicy", "GetIamPolicy", "TestIamPermissions"]),
                  ("google.cloud.location.Locations", ["ListLocations", "GetLocation"])):
    for _m in _ms:
        MIXIN_ARITIES[f"/{_svc}/{_m}"] = (False, False)


class Rig:
    def __init__(self, ctx):
        self.ctx = ctx
        ar = dict(MIXIN_ARITIES)
        ar.update(servers.arities_from_fds(ctx.fds))
        self.grpc = servers.GrpcLoop(ar)
        ctx.on_close(self.grpc.stop)
        self._http = None
        self.loop = asyncio.new_event_loop()
        asyncio.set_event_loop(self.loop)
        self._sync_channel = grpc.insecure_channel(self.grpc.addr)
        ctx.on_close(self._sync_channel.close)
        self._aio_channel = None
        self._clients = {}

    @property
    def http(self):
        if self._http is None:
            self._http = servers.HttpLoop()
            self.ctx.on_close(self._http.stop)
        return self._http

    def run(self, coro):
        return self.loop.run_until_complete(coro)

    def package_for(self, file):
        return importlib.import_module(module_of_file(self.ctx, file))

    def client(self, file, svc, kind):
        """kind in sync | async | rest"""
        key = (file["name"], svc["name"], kind)
        if key in self._clients:
            return self._clients[key]
        pkg = self.package_for(file)
        if kind == "sync":
            cls = getattr(pkg, svc["name"] + "Client")
            t = cls.get_transport_class("grpc")(channel=self._sync_channel)
            c = cls(transport=t)
        elif kind == "async":
            cls = getattr(pkg, svc["name"] + "AsyncClient")
            sync_cls = getattr(pkg, svc["name"] + "Client")

            async def mk():
                if self._aio_channel is None:
                    self._aio_channel = grpc.aio.insecure_channel(self.grpc.addr)
                t = sync_cls.get_transport_class("grpc_asyncio")(channel=self._aio_channel)
                return cls(transport=t)
            c = self.run(mk())
        elif kind == "arest":
            # experimental asynchronous REST transport (library settings: rest_async_io_enabled)
            from google.auth.aio.credentials import AnonymousCredentials as AsyncAnonymousCredentials
            cls = getattr(pkg, svc["name"] + "AsyncClient")

            async def mk_arest():
                return cls(transport="rest_asyncio", credentials=AsyncAnonymousCredentials(), client_options={"api_endpoint": self.http.endpoint})
            c = self.run(mk_arest())
        else:
            from google.auth.credentials import AnonymousCredentials
            cls = getattr(pkg, svc["name"] + "Client")
            c = cls(transport="rest", credentials=AnonymousCredentials(),
                    client_options={"api_endpoint": self.http.endpoint})
        self._clients[key] = c
        return c

    def second_server(self):
        """a second loopback gRPC server (for clients that must not share state with the first ones)"""
        if getattr(self, "_grpc_b", None) is None:
            self._grpc_b = servers.GrpcLoop(self.grpc.arities)
            self.ctx.on_close(self._grpc_b.stop)
            self._sync_channel_b = grpc.insecure_channel(self._grpc_b.addr)
            self.ctx.on_close(self._sync_channel_b.close)
            self._aio_channel_b = None
        return self._grpc_b

    def fresh_client_b(self, file, svc, kind):
        """a NEW client instance of `kind` (sync | async) whose channel goes to the second server"""
        self.second_server()
        pkg = self.package_for(file)
        if kind == "sync":
            cls = getattr(pkg, svc["name"] + "Client")
            return cls(transport=cls.get_transport_class("grpc")(channel=self._sync_channel_b))
        cls = getattr(pkg, svc["name"] + "AsyncClient")
        sync_cls = getattr(pkg, svc["name"] + "Client")

        async def mk():
            if self._aio_channel_b is None:
                self._aio_channel_b = grpc.aio.insecure_channel(self._grpc_b.addr)
            return cls(transport=sync_cls.get_transport_class("grpc_asyncio")(channel=self._aio_channel_b))
        return self.run(mk())

    def fresh_rest_client_b(self, file, svc):
        """a NEW REST client whose endpoint is a second loopback HTTP server -> (client, server)"""
        if getattr(self, "_http_b", None) is None:
            self._http_b = servers.HttpLoop()
            self.ctx.on_close(self._http_b.stop)
        from google.auth.credentials import AnonymousCredentials
        cls = getattr(self.package_for(file), svc["name"] + "Client")
        return cls(transport="rest", credentials=AnonymousCredentials(), client_options={"api_endpoint": self._http_b.endpoint}), self._http_b

    def method(self, client, rpc_name):
        return getattr(client, client_method_name(rpc_name))


def python_class(ctx, full_name):
    """The python class the emitted library uses for a message type: generated proto-plus class for
    target-package types, the installed pb2 class for dependency types. -> (class, is_protoplus)"""
    full = full_name.lstrip(".")
    from .c02 import input_message_protos, find_class
    msgs = input_message_protos(ctx)
    if full in msgs:
        return find_class(ctx, full, msgs[full][1]), True
    return symbol_database.Default().GetSymbol(full), False


def to_python(ctx, full_name, dyn_msg):
    cls, pp = python_class(ctx, full_name)
    b = dyn_msg.SerializeToString(deterministic=True)
    return cls.deserialize(b) if pp else cls.FromString(b)


def to_bytes(obj):
    """bytes of a value returned by the emitted client (proto-plus message or pb2 message)."""
    if hasattr(type(obj), "serialize") and hasattr(type(obj), "pb"):
        return type(obj).serialize(obj)
    return obj.SerializeToString()
