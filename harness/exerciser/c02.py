"""C02 — generated message and enum classes are wire-compatible with the input descriptors."""
import importlib, json
from google.protobuf import descriptor_pb2, json_format
from google.protobuf.descriptor import FieldDescriptor as FD

from .base import Fail, forall, module_of_file
from . import values
from .. import model as M
from ..strategies import RESERVED

WKT_JSON_SPECIAL = {"google.protobuf.Timestamp", "google.protobuf.Duration", "google.protobuf.FieldMask",
                    "google.protobuf.Struct", "google.protobuf.Value", "google.protobuf.ListValue",
                    "google.protobuf.Any", "google.protobuf.Int32Value", "google.protobuf.StringValue",
                    "google.protobuf.BoolValue", "google.protobuf.Empty", "google.protobuf.Int64Value",
                    "google.protobuf.UInt32Value", "google.protobuf.UInt64Value", "google.protobuf.FloatValue",
                    "google.protobuf.DoubleValue", "google.protobuf.BytesValue"}


def input_message_protos(ctx):
    """{full name: (DescriptorProto, file model)} for every message of the target files, nested included."""
    out = {}
    targets = set(ctx.case["file_to_generate"])
    for f in ctx.fds.file:
        if f.name not in targets:
            continue
        fm = next(x for x in ctx.api["files"] if x["name"] == f.name)

        def rec(prefix, msgs):
            for m in msgs:
                full = f"{prefix}.{m.name}"
                if m.options.map_entry:
                    continue
                out[full] = (m, fm)
                rec(full, m.nested_type)
        rec(f.package, f.message_type)
    return out


def input_enum_protos(ctx):
    out = {}
    targets = set(ctx.case["file_to_generate"])
    for f in ctx.fds.file:
        if f.name not in targets:
            continue
        fm = next(x for x in ctx.api["files"] if x["name"] == f.name)
        for e in f.enum_type:
            out[f"{f.package}.{e.name}"] = (e, fm)

        def rec(prefix, msgs):
            for m in msgs:
                full = f"{prefix}.{m.name}"
                for e in m.enum_type:
                    out[f"{full}.{e.name}"] = (e, fm)
                rec(full, m.nested_type)
        rec(f.package, f.message_type)
    return out


def find_class(ctx, full, fm):
    mod = importlib.import_module(module_of_file(ctx, fm))
    rel = full[len(fm["package"]) + 1:].split(".")
    obj = mod
    for part in rel:
        obj = getattr(obj, part, None)
        if obj is None:
            return None
    return obj


def field_view(mpb, f):
    """Comparable view of a FieldDescriptorProto inside message proto mpb."""
    oneof = None
    if f.HasField("oneof_index"):
        oneof = mpb.oneof_decl[f.oneof_index].name
        if f.proto3_optional:
            oneof = "<synthetic>"        # the name of a synthetic oneof carries no meaning; presence does
    v = {"name": f.name, "number": f.number, "type": f.type, "label": f.label,
         "type_name": f.type_name.lstrip("."), "oneof": oneof, "proto3_optional": f.proto3_optional}
    if f.type == FD.TYPE_MESSAGE:
        ent = next((n for n in mpb.nested_type if n.options.map_entry and f.type_name.endswith("." + mpb.name + "." + n.name)), None)
        if ent is not None and f.label == FD.LABEL_REPEATED:
            k, val = ent.field[0], ent.field[1]
            if k.number != 1:
                k, val = val, k
            v["map"] = {"key": k.type, "value": val.type, "value_type_name": val.type_name.lstrip(".")}
            v["type_name"] = "<map entry>"
    return v


def compare_descriptor(ctx, full, mpb, cls):
    try:
        desc = cls.pb(cls()).DESCRIPTOR
    except Exception as e:
        ctx.violation("class-unusable", f"{full}: cannot instantiate generated class: {type(e).__name__}: {e}")
        return
    if desc.full_name != full:
        ctx.violation("desc-full-name", f"generated class for {full} registers as {desc.full_name}")
    got = descriptor_pb2.DescriptorProto()
    desc.CopyToProto(got)
    want = {f.number: field_view(mpb, f) for f in mpb.field}
    have = {f.number: field_view(got, f) for f in got.field}
    if set(want) != set(have):
        ctx.violation("field-set", f"{full}: field numbers differ: input {sorted(want)} generated {sorted(have)}",
                      {"missing": sorted(set(want) - set(have)), "extra": sorted(set(have) - set(want))})
        return
    for n, w in want.items():
        h = have[n]
        if w["name"] in RESERVED and h["name"] == w["name"] + "_":
            h = dict(h, name=w["name"])      # the runtime descriptor carries the python attribute name
        if w != h:
            diff = {k: (w[k], h.get(k)) for k in w if w[k] != h.get(k)}
            ctx.violation("field-mismatch:" + ",".join(sorted(diff)), f"{full}.{w['name']} (#{n}): (input, generated) differ: {diff}")
    # python attribute names
    inst = cls()
    for f in mpb.field:
        attr = f.name + "_" if f.name in RESERVED else f.name
        try:
            getattr(inst, attr)
        except AttributeError:
            ctx.violation("attr-name", f"{full}: field {f.name!r} is not reachable as attribute {attr!r}")
    ctx.count("messages_compared")


def check_json_keys(obj, desc, path=""):
    """every key of a JSON object produced for `desc` is the lowerCamel json_name of a field."""
    if desc.full_name in WKT_JSON_SPECIAL or not isinstance(obj, dict):
        return
    names = {f.json_name: f for f in desc.fields}
    for k, v in obj.items():
        if k not in names:
            raise Fail("json-key", f"JSON key {path + k!r} is not the lowerCamel name of any field of {desc.full_name} "
                       f"(expected one of {sorted(names)})")
        f = names[k]
        if f.message_type is None:
            continue
        if f.message_type.GetOptions().map_entry:
            vf = f.message_type.fields_by_name["value"]
            if vf.message_type is not None and isinstance(v, dict):
                for kk, vv in v.items():
                    check_json_keys(vv, vf.message_type, path + k + "{}.")
        elif f.label == FD.LABEL_REPEATED:
            for vv in v or []:
                check_json_keys(vv, f.message_type, path + k + "[].")
        else:
            check_json_keys(v, f.message_type, path + k + ".")


def exercise(ctx):
    from .c01 import import_all
    import_all(ctx, kind="import")
    msgs = input_message_protos(ctx)
    enums = input_enum_protos(ctx)
    n_inner = int(ctx.inner.get("n", 20))
    classes = values.classes_of(ctx.pool)
    for full, (epb, fm) in sorted(enums.items()):
        cls = find_class(ctx, full, fm)
        if cls is None:
            ctx.violation("enum-missing", f"no generated class for enum {full}")
            continue
        want = {v.name: v.number for v in epb.value}
        try:
            have = {n: int(m.value) for n, m in cls.__members__.items()}      # __members__ includes aliases (allow_alias)
        except Exception as e:
            ctx.violation("enum-unusable", f"{full}: {type(e).__name__}: {e}")
            continue
        if want != have:
            ctx.violation("enum-values", f"{full}: input values {want} generated {have}")
        ctx.count("enums_compared")
    for full, (mpb, fm) in sorted(msgs.items()):
        cls = find_class(ctx, full, fm)
        if cls is None:
            ctx.violation("message-missing", f"no generated class for message {full} at its nesting path")
            continue
        compare_descriptor(ctx, full, mpb, cls)
        desc = ctx.pool.FindMessageTypeByName(full)
        dyn = classes(desc)
        kinds = sorted({(f.type, f.label, bool(f.containing_oneof), f.has_presence) for f in desc.fields})
        if any(f.label == FD.LABEL_REPEATED or f.message_type is not None or f.enum_type is not None or f.containing_oneof for f in desc.fields):
            ctx.nontrivial(["msg", kinds])

        def roundtrip(m, cls=cls, dyn=dyn, full=full, desc=desc):
            b = m.SerializeToString(deterministic=True)
            try:
                x = cls.deserialize(b)
                b2 = cls.serialize(x)
            except Exception as e:
                raise Fail("roundtrip-raised", f"{full}: {type(e).__name__}: {e}", {"bytes": b.hex()})
            m2 = dyn.FromString(b2)
            if m2 != m:
                raise Fail("roundtrip-bytes", f"{full}: input-descriptor value changed after generated deserialize/serialize",
                           {"sent": b.hex(), "got": b2.hex(), "sent_text": str(m)[:400], "got_text": str(m2)[:400]})
            # converse: rebuild through python attributes of a fresh generated instance
            y = cls()
            expect = dyn()
            expect.CopyFrom(m)
            for f in desc.fields:
                attr = f.name + "_" if f.name in RESERVED else f.name
                present = (f.name in [fd.name for fd, _ in m.ListFields()])
                vt = f.message_type
                if vt is not None and vt.GetOptions().map_entry:
                    vt = vt.fields_by_name["value"].message_type
                if vt is not None and vt.full_name.startswith("google.protobuf."):
                    # well-known types are converted to native python values by the runtime's marshal
                    # (datetime, timedelta, dict, ...); that conversion is the runtime's, not the generator's
                    expect.ClearField(f.name)
                    continue
                if present:
                    try:
                        setattr(y, attr, getattr(x, attr))
                    except Exception as e:
                        raise Fail("attr-assign", f"{full}.{attr}: {type(e).__name__}: {e}", {"bytes": b.hex()})
            m3 = dyn.FromString(cls.serialize(y))
            if m3 != expect:
                raise Fail("roundtrip-attrs", f"{full}: value rebuilt through generated attributes differs",
                           {"sent_text": str(m)[:400], "got_text": str(m3)[:400]})

        forall(ctx, values.message(desc, classes, max_depth=3), roundtrip, n_inner, label="wire")

        def jsontrip(m, cls=cls, dyn=dyn, full=full, desc=desc):
            b = m.SerializeToString(deterministic=True)
            try:
                j = cls.to_json(cls.deserialize(b))
                obj = json.loads(j)
            except Exception as e:
                raise Fail("json-raised", f"{full}: to_json raised {type(e).__name__}: {e}", {"bytes": b.hex(), "text": str(m)[:300]})
            check_json_keys(obj, desc)
            try:
                back = json_format.Parse(j, dyn(), descriptor_pool=ctx.pool)
            except Exception as e:
                raise Fail("json-parse", f"{full}: JSON from the generated class does not parse under the input descriptor: {e}", {"json": j[:600]})
            if back != m:
                raise Fail("json-roundtrip", f"{full}: JSON from the generated class parses to a different value",
                           {"json": j[:600], "sent_text": str(m)[:400], "got_text": str(back)[:400]})
        forall(ctx, values.message(desc, classes, max_depth=2, json_safe=True), jsontrip, max(5, n_inner // 2), label="json")
    ctx.sample({"messages": len(msgs), "enums": len(enums), "inner_evaluations": ctx.counters.get("inner_evaluations", 0)})
