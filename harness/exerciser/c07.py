"""C07 — paginated methods yield every item of every page exactly once, in order."""
from hypothesis import strategies as st
from google.protobuf.descriptor import FieldDescriptor as FD

from .base import Fail, forall, client_method_name
from . import values
from .rig import Rig, to_python, to_bytes
from ..refmodels import paging as P

TIMEOUT = 37.0


def _norm(desc, b):
    """re-serialise deterministically under the input descriptor (map order inside items is unspecified)"""
    from google.protobuf import message_factory
    return message_factory.GetMessageClass(desc).FromString(b).SerializeToString(deterministic=True)


def _marshalled(mt):
    return mt is not None and mt.full_name.startswith("google.protobuf.")


def canon_item(fd, item):
    """comparable form of one yielded item (well-known types are converted to native values by the
    runtime's marshal: only their count is compared)."""
    vt = fd.message_type
    if vt is not None and vt.GetOptions().map_entry:
        vt = vt.fields_by_name["value"].message_type
        if _marshalled(vt):
            return (item[0], "<wkt>")
    elif _marshalled(vt):
        return "<wkt>"
    is_map = fd.message_type is not None and fd.message_type.GetOptions().map_entry
    if is_map:
        k, v = item
        vf = fd.message_type.fields_by_name["value"]
        return (k, _norm(vf.message_type, to_bytes(v)) if vf.message_type is not None else v)
    if fd.message_type is not None:
        return _norm(fd.message_type, to_bytes(item))
    if fd.enum_type is not None:
        return int(item)
    return item


def canon_expected(fd, page):
    is_map = fd.message_type is not None and fd.message_type.GetOptions().map_entry
    vals = getattr(page, fd.name)
    if is_map and _marshalled(fd.message_type.fields_by_name["value"].message_type):
        return [(k, "<wkt>") for k in vals]
    if not is_map and _marshalled(fd.message_type):
        return ["<wkt>" for _ in vals]
    if is_map:
        vf = fd.message_type.fields_by_name["value"]
        return [(k, vals[k].SerializeToString(deterministic=True) if vf.message_type is not None else vals[k]) for k in vals]
    if fd.message_type is not None:
        return [v.SerializeToString(deterministic=True) for v in vals]
    return list(vals)


def exercise(ctx):
    from .c01 import import_all
    import_all(ctx)
    rig = Rig(ctx)
    classes = values.classes_of(ctx.pool)
    n = int(ctx.inner.get("n", 8))
    for f, svc in ctx.services():
        for m in svc["methods"]:
            if m.get("cs") or m.get("ss") or m.get("lro") is not None:
                continue
            in_desc, out_desc = ctx.descriptor(m["input"]), ctx.descriptor(m["output"])
            if "page_token" not in in_desc.fields_by_name and "next_page_token" not in out_desc.fields_by_name:
                continue
            paged, item_fd, vec = P.classify(in_desc, out_desc)
            path_ = f"/{f['package']}.{svc['name']}/{m['name']}"
            ctx.cls("classified:" + ("paged" if paged else "plain"))
            missing = [k for k, v in vec.items() if v in (None, "other", 0)]
            # ---- classification: what the clients return for a single-page reply
            observed = {}
            for kind in ("sync", "async"):
                client = rig.client(f, svc, kind)
                meth = getattr(client, client_method_name(m["name"]), None)
                if meth is None:
                    ctx.violation("method-missing", f"{path_}: no client method")
                    continue
                rig.grpc.respond = lambda rec: b""
                rig.grpc.take()
                try:
                    if kind == "sync":
                        res = meth(request=to_python(ctx, m["input"], classes(in_desc)()))
                    else:
                        async def go():
                            return await meth(request=to_python(ctx, m["input"], classes(in_desc)()))
                        res = rig.run(go())
                except Exception as e:
                    import traceback
                    ctx.violation("call-raised", f"{path_} ({kind}): {type(e).__name__}: {str(e)[:300]}",
                                  {"vector": vec, "traceback": traceback.format_exc()[-1500:]})
                    continue
                is_pager = type(res).__name__ in (m["name"] + "Pager", m["name"] + "AsyncPager") and hasattr(res, "pages")
                observed[kind] = is_pager
                if is_pager != paged:
                    ctx.violation("classification", f"{path_} ({kind}): returns {type(res).__name__}; by the AIP-4233 rule the method is "
                                  f"{'paginated' if paged else 'NOT paginated'} (ingredients {vec})", {"vector": vec})
                if kind == "async" and paged and is_pager and not type(res).__name__.endswith("AsyncPager"):
                    ctx.violation("classification", f"{path_}: asyncio client returned {type(res).__name__}")
            if len(missing) == 1 or (paged and vec["max_results"] is not None):
                ctx.nontrivial(["boundary", vec])
            if not paged or not all(observed.get(k) for k in ("sync", "async")):
                continue

            # ---- iteration over generated page histories
            item_is_map = item_fd.message_type is not None and item_fd.message_type.GetOptions().map_entry
            page_s = values.message(out_desc, classes, max_depth=2)

            @st.composite
            def scenario(draw, page_s=page_s, in_desc=in_desc):
                npages = draw(st.integers(1, 5))
                pages = []
                for i in range(npages):
                    pg = draw(page_s)
                    size = draw(st.integers(0, 3))
                    if not item_is_map:
                        vals = getattr(pg, item_fd.name)
                        while len(vals) > size:
                            del vals[-1]
                    pages.append(pg)
                extra = draw(st.lists(page_s, max_size=2))       # scripted after the first empty token: never requested
                req = draw(values.message(in_desc, classes, max_depth=2))
                start = draw(st.sampled_from(["", "", "start-token"]))
                kind = draw(st.sampled_from(["sync", "async"]))
                with_opts = draw(st.booleans())
                return pages, extra, req, start, kind, with_opts

            def one(sc, f=f, svc=svc, m=m, in_desc=in_desc, out_desc=out_desc, path_=path_, item_fd=item_fd):
                pages, extra, req, start, kind, with_opts = sc
                req.page_token = start
                tokens = [f"tok-{i}" for i in range(1, len(pages))] + [""]
                for pg, t in zip(pages, tokens):
                    pg.next_page_token = t
                for i, pg in enumerate(extra):
                    pg.next_page_token = "" if i == len(extra) - 1 else f"extra-{i}"
                by_token = {start: pages[0]}
                for i in range(1, len(pages)):
                    by_token[tokens[i - 1]] = pages[i]
                dyn_in = classes(in_desc)

                def respond(rec):
                    r = dyn_in.FromString(rec["requests"][0])
                    pg = by_token.get(r.page_token)
                    if pg is None:
                        pg = extra[0] if extra else classes(out_desc)()
                    return pg.SerializeToString(deterministic=True)
                rig.grpc.respond = respond
                rig.grpc.take()
                client = rig.client(f, svc, kind)
                meth = getattr(client, client_method_name(m["name"]))
                kw = {"request": to_python(ctx, m["input"], req)}
                if with_opts:
                    kw["timeout"] = TIMEOUT
                    kw["metadata"] = (("x-verif-marker", "m1"), ("x-verif-other", "v 2"))
                ctx.nontrivial(["history", len(pages), any(len(canon_expected(item_fd, p)) == 0 for p in pages[:-1]) if len(pages) > 1 else False,
                                "map" if item_is_map else "msg" if item_fd.message_type is not None else "scalar", kind, with_opts]) if len(pages) >= 2 else None
                detail = {"rpc": path_, "client": kind, "pages": [len(canon_expected(item_fd, p)) for p in pages], "tokens": tokens, "start": start, "opts": with_opts}
                last_attr = None
                try:
                    if kind == "sync":
                        pager = meth(**kw)
                        got = [canon_item(item_fd, x) for x in pager]
                        last_attr = pager.next_page_token
                    else:
                        async def go():
                            pager = await meth(**kw)
                            out = [canon_item(item_fd, x) async for x in pager]
                            return out, pager.next_page_token
                        got, last_attr = rig.run(go())
                except Exception as e:
                    import traceback
                    raise Fail("iteration-raised", f"{path_} ({kind}): {type(e).__name__}: {str(e)[:300]}", dict(detail, traceback=traceback.format_exc()[-1500:]))
                calls = [c for c in rig.grpc.take() if c["method"] == path_]
                want = []
                for pg in pages:
                    want.extend(canon_expected(item_fd, pg))
                cmp_got, cmp_want = got, want
                if item_is_map and len(got) == len(want):
                    # order inside one map page is unspecified: compare page by page as sorted chunks
                    cmp_got, cmp_want, pos = [], [], 0
                    for pg in pages:
                        k = len(canon_expected(item_fd, pg))
                        cmp_got.extend(sorted(map(repr, got[pos:pos + k])))
                        cmp_want.extend(sorted(map(repr, want[pos:pos + k])))
                        pos += k
                if cmp_got != cmp_want:
                    raise Fail("items", f"{path_} ({kind}): yielded {len(got)} items, expected the {len(want)} items of the first repeated field "
                               f"{item_fd.name!r} of {len(pages)} pages in order", dict(detail, got=[repr(x)[:60] for x in got][:12], want=[repr(x)[:60] for x in want][:12]))
                if len(calls) != len(pages):
                    raise Fail("fetch-count", f"{path_} ({kind}): {len(calls)} requests for {len(pages)} pages (pages after the first empty token must not be requested)", detail)
                for i, c in enumerate(calls):
                    r = dyn_in.FromString(c["requests"][0])
                    exp = dyn_in()
                    exp.CopyFrom(req)
                    exp.page_token = start if i == 0 else tokens[i - 1]
                    if r != exp:
                        raise Fail("fetch-request", f"{path_} ({kind}): request {i} is {str(r)[:300]!r}, expected the initial request with page_token={exp.page_token!r}",
                                   dict(detail, expected=str(exp)[:300]))
                    md = {k: v for k, v in c["metadata"]}
                    if with_opts:
                        if md.get("x-verif-marker") != "m1" or md.get("x-verif-other") != "v 2":
                            raise Fail("fetch-metadata", f"{path_} ({kind}): request {i} lost the caller's metadata: {sorted(md)}", detail)
                        if not (0 < c["time_remaining"] <= TIMEOUT + 0.5):
                            raise Fail("fetch-timeout", f"{path_} ({kind}): request {i} has deadline {c['time_remaining']:.1f}s remaining; the caller asked for timeout={TIMEOUT}", detail)
                    base = {k: v for k, v in calls[0]["metadata"] if k.startswith("x-goog-request-params") or k.startswith("x-verif")}
                    cur = {k: v for k, v in c["metadata"] if k.startswith("x-goog-request-params") or k.startswith("x-verif")}
                    if cur != base:
                        raise Fail("fetch-metadata", f"{path_} ({kind}): request {i} metadata {cur} differs from the first request's {base}", detail)
                if last_attr != "":
                    raise Fail("pager-attrs", f"{path_} ({kind}): pager.next_page_token is {last_attr!r} after exhausting the pager; most recent page has ''", detail)
                if len(pages) >= 2:
                    # a history of two calls: the SAME request object is handed in again and has to yield every item again
                    try:
                        if kind == "sync":
                            got2 = [canon_item(item_fd, x) for x in meth(**kw)]
                        else:
                            async def go2():
                                return [canon_item(item_fd, x) async for x in await meth(**kw)]
                            got2 = rig.run(go2())
                    except Exception as e:
                        raise Fail("iteration-raised", f"{path_} ({kind}), second call with the same request object: {type(e).__name__}: {str(e)[:300]}", detail)
                    calls2 = [c for c in rig.grpc.take() if c["method"] == path_]
                    ctx.count("second_calls_same_request")
                    if list(map(repr, got2)) != list(map(repr, got)) or len(calls2) != len(pages):
                        raise Fail("second-call-items", f"{path_} ({kind}): a second call with the same request object yielded {len(got2)} items in "
                                   f"{len(calls2)} requests, the first one {len(got)} items in {len(calls)} (the caller's request must not carry state over)",
                                   dict(detail, first_tokens=[dyn_in.FromString(c["requests"][0]).page_token for c in calls2]))

            forall(ctx, scenario(), one, n, label=m["name"], shrink=False)
            ctx.count("methods_exercised")
    ctx.sample({"inner_evaluations": ctx.counters.get("inner_evaluations", 0), "methods": ctx.counters.get("methods_exercised", 0)})
