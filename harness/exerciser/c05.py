"""C05 — flattened keyword arguments are equivalent to an explicit request object."""
import inspect
from hypothesis import strategies as st
from google.protobuf.descriptor import FieldDescriptor as FD

from .base import Fail, forall, client_method_name
from . import values
from .rig import Rig, python_class, to_python
from ..strategies import RESERVED


def reference_params(ctx, m):
    """[(dotted path, leaf FieldDescriptor, parameter name)] in declared order (first occurrence)."""
    desc = ctx.descriptor(m["input"])
    out, seen = [], set()
    for sig in m.get("signatures", []):
        for raw in sig.split(","):
            path = raw.strip()
            if not path or path in seen:
                continue
            seen.add(path)
            d, fd = desc, None
            for seg in path.split("."):
                fd = d.fields_by_name[seg]
                d = fd.message_type
            out.append((path, fd, fd.name + "_" if fd.name in RESERVED else fd.name))
    return out


def bare_leaf(ctx, fd):
    """reserved-word leaf of a message that is not proto-plus: the parameter keeps the bare name (finding F-dep-reserved-flattened)"""
    return fd.name in RESERVED and fd.containing_type.file.name not in set(ctx.case["file_to_generate"])


def oneof_claims(desc, path):
    """{(prefix path, oneof name): member} for every segment of `path` that is a member of a real oneof."""
    out, d, prefix = {}, desc, ""
    for seg in path.split("."):
        fd = d.fields_by_name[seg]
        o = fd.containing_oneof
        if o is not None and not (len(o.fields) == 1 and o.name == "_" + fd.name):
            out[(prefix, o.name)] = seg
        prefix += seg + "."
        d = fd.message_type
    return out


def leaf_strategy(ctx, fd, classes):
    is_map = fd.message_type is not None and fd.message_type.GetOptions().map_entry
    if is_map:
        kf, vf = fd.message_type.fields_by_name["key"], fd.message_type.fields_by_name["value"]
        vs = values.message(vf.message_type, classes, max_depth=1) if vf.message_type is not None else values.scalar(vf)
        return st.dictionaries(values.scalar(kf), vs, max_size=2)
    one = values.message(fd.message_type, classes, max_depth=2) if fd.message_type is not None else values.scalar(fd)
    if fd.label == FD.LABEL_REPEATED:
        return st.lists(one, max_size=3)
    return one


def set_path(msg, path, fd, value):
    segs = path.split(".")
    cur = msg
    for s in segs[:-1]:
        cur = getattr(cur, s)
    is_map = fd.message_type is not None and fd.message_type.GetOptions().map_entry
    if is_map:
        tgt = getattr(cur, fd.name)
        for k, v in value.items():
            if fd.message_type.fields_by_name["value"].message_type is not None:
                tgt[k].CopyFrom(v)
            else:
                tgt[k] = v
    elif fd.label == FD.LABEL_REPEATED:
        tgt = getattr(cur, fd.name)
        for v in value:
            if fd.message_type is not None:
                tgt.add().CopyFrom(v)
            else:
                tgt.append(v)
    elif fd.message_type is not None:
        getattr(cur, fd.name).CopyFrom(value)
    else:
        setattr(cur, fd.name, value)


def strip_empty_parents(msg, paths):
    """Whether assigning a default/empty leaf marks its (otherwise empty) parent messages as present is a
    runtime detail the statement does not fix: drop present-but-empty intermediate messages on both sides."""
    for path in sorted(paths, key=lambda p: -p.count(".")):
        segs = path.split(".")[:-1]
        for depth in range(len(segs), 0, -1):
            cur = msg
            for s in segs[:depth - 1]:
                cur = getattr(cur, s)
            name = segs[depth - 1]
            if cur.HasField(name) and getattr(cur, name).ByteSize() == 0:
                cur.ClearField(name)
    return msg


def py_value(ctx, fd, value):
    """python-side argument for a flattened parameter from the reference value."""
    def conv(vfd, v):
        if vfd.message_type is not None and not vfd.message_type.GetOptions().map_entry:
            return to_python(ctx, vfd.message_type.full_name, v)
        return v
    is_map = fd.message_type is not None and fd.message_type.GetOptions().map_entry
    if is_map:
        vf = fd.message_type.fields_by_name["value"]
        return {k: conv(vf, v) for k, v in value.items()}
    if fd.label == FD.LABEL_REPEATED:
        return [conv(fd, v) for v in value]
    return conv(fd, value)


def exercise(ctx):
    from .c01 import import_all
    import_all(ctx)
    rig = Rig(ctx)
    classes = values.classes_of(ctx.pool)
    n = int(ctx.inner.get("n", 10))
    for f, svc in ctx.services():
        for m in svc["methods"]:
            if not m.get("signatures") or m.get("cs"):
                continue
            params = reference_params(ctx, m)
            if not params:
                continue
            in_desc, out_desc = ctx.descriptor(m["input"]), ctx.descriptor(m["output"])
            # "request lives in a different package, so there is no proto wrapper" (the generator's documented rule)
            dep_request = m["input"].rsplit(".", 1)[0] != "." + f["package"]
            path_ = f"/{f['package']}.{svc['name']}/{m['name']}"
            # 1. surface: parameters offered in declared order
            offered = {}
            kinds = ("sync",) if ctx.options.get("ads") else ("sync", "async")      # the ads template set has no asyncio client
            for kind in kinds:
                client = rig.client(f, svc, kind)
                meth = getattr(client, client_method_name(m["name"]), None)
                if meth is None:
                    ctx.violation("method-missing", f"{type(client).__name__} has no {client_method_name(m['name'])}")
                    continue
                sig = inspect.signature(meth)
                names = list(sig.parameters)
                if names[:1] != ["request"] or names[-3:] != ["retry", "timeout", "metadata"]:
                    ctx.violation("signature-shape", f"{path_} ({kind}): parameters {names}")
                    continue
                flat = names[1:-3]
                want = [p for _, fd, p in params]
                if dep_request:
                    # the generator documents that non-primitive fields of foreign (non proto-plus) requests are not
                    # offered; measured, and only the offered ones are judged
                    want_judged = [p for p in want if p in flat]
                    ctx.cls("dep-request-signature")
                else:
                    want_judged = want
                if flat != want_judged:
                    ctx.violation("param-order", f"{path_} ({kind}): flattened parameters {flat}, declared order {want}")
                    want_bare = [fd.name if bare_leaf(ctx, fd) else p for _, fd, p in params if p in want_judged]
                    if flat != want_bare:
                        continue
                    # only the known bare-name shape differs: the equivalence is still judged, under the names offered
                    if kind == kinds[-1]:
                        params = [(pth, fd, fd.name if bare_leaf(ctx, fd) else p) for pth, fd, p in params]
                bad = [p for p in flat if sig.parameters[p].kind is not inspect.Parameter.KEYWORD_ONLY]
                if bad:
                    ctx.violation("param-kind", f"{path_} ({kind}): parameters {bad} are not keyword-only")
                offered[kind] = flat
            if set(offered) != set(kinds):
                continue
            usable = [(p, fd, name) for p, fd, name in params if name in offered["sync"]]
            def _marshal_trouble(fd):
                vt = fd.message_type
                if vt is not None and vt.GetOptions().map_entry:
                    vt = vt.fields_by_name["value"].message_type
                return fd.label == FD.LABEL_REPEATED and vt is not None and vt.full_name in ("google.protobuf.Struct", "google.protobuf.ListValue")
            if any(_marshal_trouble(fd) for _, fd, _n in usable):
                ctx.cls("parameter skipped: repeated Struct/ListValue (runtime marshal rejects list assignment)")
                usable = [u for u in usable if not _marshal_trouble(u[1])]
            if not usable:
                continue
            feats = sorted({("dotted" if "." in p else "top") + ":" + ("map" if (fd.message_type is not None and fd.message_type.GetOptions().map_entry)
                            else "rep" if fd.label == FD.LABEL_REPEATED else "msg" if fd.message_type is not None else "enum" if fd.enum_type is not None else "scalar")
                            + (":reserved" if name.endswith("_") and name[:-1] in RESERVED else "") for p, fd, name in usable})

            @st.composite
            def scenario(draw, usable=usable, in_desc=in_desc):
                k = draw(st.integers(1, len(usable)))
                idx = draw(st.lists(st.integers(0, len(usable) - 1), min_size=k, max_size=k, unique=True))
                chosen, claims = [], {}
                for i in sorted(idx):       # members of one oneof exclude each other: keep the first of each group
                    c = oneof_claims(in_desc, usable[i][0])
                    if any(claims.get(k, v) != v for k, v in c.items()):
                        continue
                    claims.update(c)
                    chosen.append((usable[i], draw(leaf_strategy(ctx, usable[i][1], classes))))
                kind = draw(st.sampled_from(list(kinds)))
                extra = draw(st.integers(0, len(usable) - 1))
                extra_val = draw(leaf_strategy(ctx, usable[extra][1], classes))
                return chosen, kind, (usable[extra], extra_val)

            def one(sc, f=f, svc=svc, m=m, in_desc=in_desc, out_desc=out_desc, path_=path_, feats=feats):
                chosen, kind, (extra, extra_val) = sc
                dyn_in = classes(in_desc)
                expected = dyn_in()
                kwargs = {}
                for (p, fd, name), v in chosen:
                    set_path(expected, p, fd, v)
                    kwargs[name] = py_value(ctx, fd, v)
                if any("dotted" in x or "msg" in x or "rep" in x or "map" in x or "reserved" in x or "enum" in x for x in feats) or dep_request:
                    ctx.nontrivial(["flat", feats, len(chosen), kind, dep_request])
                client = rig.client(f, svc, kind)
                meth = getattr(client, client_method_name(m["name"]))
                reply = classes(out_desc)().SerializeToString() if m.get("lro") is None else b""
                rig.grpc.respond = lambda rec: reply
                detail = {"rpc": path_, "client": kind, "kwargs": {k: str(v)[:120] for k, v in kwargs.items()}, "expected": str(expected)[:400]}

                def call(**kw):
                    rig.grpc.take()
                    try:
                        if kind == "sync":
                            r = meth(**kw)
                            if m.get("ss"):
                                list(r)
                        else:
                            async def go():
                                r = await meth(**kw)
                                if m.get("ss"):
                                    [x async for x in r]
                            rig.run(go())
                    except ValueError:
                        raise
                    except Exception as e:
                        import traceback
                        raise Fail("call-raised", f"{path_} ({kind}) kwargs={sorted(kw)}: {type(e).__name__}: {str(e)[:300]}",
                                   dict(detail, traceback=traceback.format_exc()[-1500:]))
                    return rig.grpc.take()

                try:
                    calls = call(**kwargs)
                except ValueError as e:
                    raise Fail("kwargs-rejected", f"{path_} ({kind}): keyword call raised ValueError: {e}", detail)
                first = [c for c in calls if c["method"] == path_]
                if len(first) != 1:
                    raise Fail("call-count", f"{path_} ({kind}): {len(first)} calls for the keyword form", detail)
                paths = [p for (p, _fd, _n), _v in chosen]
                got = strip_empty_parents(dyn_in.FromString(first[0]["requests"][0]), paths)
                strip_empty_parents(expected, paths)
                if got != expected:
                    raise Fail("kwargs-request", f"{path_} ({kind}): keyword call sent {str(got)[:300]!r}, expected {str(expected)[:300]!r}", detail)
                # explicit request object with exactly those fields
                try:
                    calls = call(request=to_python(ctx, m["input"], expected))
                except ValueError as e:
                    raise Fail("request-rejected", f"{path_} ({kind}): request-object call raised ValueError: {e}", detail)
                second = [c for c in calls if c["method"] == path_]
                if len(second) != 1 or strip_empty_parents(dyn_in.FromString(second[0]["requests"][0]), paths) != got:
                    raise Fail("request-vs-kwargs", f"{path_} ({kind}): request-object call and keyword call differ on the wire", detail)
                # both: must raise ValueError before anything is sent (any value that is not None, falsy ones included)
                (p, fd, name) = extra
                both = {"request": to_python(ctx, m["input"], expected), name: py_value(ctx, fd, extra_val)}
                try:
                    calls = call(**both)
                except ValueError:
                    calls = rig.grpc.take()
                    if calls:
                        raise Fail("both-sent", f"{path_} ({kind}): ValueError raised but {len(calls)} call(s) were sent", detail)
                    return
                raise Fail("both-accepted", f"{path_} ({kind}): request together with {name}={both[name]!r} did not raise ValueError "
                           f"({len(calls)} call(s) sent)", dict(detail, extra={name: str(both[name])[:100]}))

            forall(ctx, scenario(), one, n, label=m["name"], shrink=False)
            ctx.count("methods_exercised")
    ctx.sample({"inner_evaluations": ctx.counters.get("inner_evaluations", 0), "methods": ctx.counters.get("methods_exercised", 0)})
