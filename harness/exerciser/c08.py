"""C08 — long-running methods return futures typed by google.longrunning.operation_info."""
import asyncio, time
import grpc
from hypothesis import strategies as st
from google.longrunning import operations_pb2
from google.protobuf import any_pb2
from google.rpc import status_pb2

from .base import Fail, forall, client_method_name
from . import values
from .rig import Rig, python_class, to_python, to_bytes
from .servers import GrpcError
from .c06 import set_string
from .c04 import var_value
from ..refmodels import transcoding as T

GETOP = "/google.longrunning.Operations/GetOperation"
CODES = {3: "InvalidArgument", 5: "NotFound", 7: "PermissionDenied", 9: "FailedPrecondition", 13: "InternalServerError", 14: "ServiceUnavailable", 8: "ResourceExhausted"}


def resolve(name, method_package):
    """operation_info type names are resolved relative to the method's package."""
    return name if "." in name else f"{method_package}.{name}"


def install_fake_clock():
    """No poll ever waits: the harness owns the clock (sleep returns at once)."""
    time.sleep = lambda s: None
    real = asyncio.sleep

    async def fast(delay, result=None):
        return await real(0, result)
    asyncio.sleep = fast


# operation names that the GetOperation HTTP rule in force can transcode
REST_NAMES = {"/v1/{name=operations/*}": ["operations/op-1", "operations/abc.def"],
              "/v1beta/{name=projects/*/operations/*}": ["projects/p/operations/abc", "projects/p-2/operations/o_1"],
              "/v2/{name=projects/*/locations/*/operations/*}": ["projects/p/locations/l/operations/abc"]}
REST_DEFAULT_NAMES = ["projects/p/operations/abc", "x/y/z/operations/op-1"]      # api-core's default rule {name=**/operations/*}


def strip_unqueryable(msg, keep=()):
    """Keep scalars and the messages that lead to path variables; what else may travel as a query parameter is C04's
    subject (api-core refuses repeated messages, maps, Struct ...) - here the request only has to carry the call."""
    for fd, v in list(msg.ListFields()):
        if fd.message_type is None:
            continue
        sub = [k[len(fd.name) + 1:] for k in keep if k.startswith(fd.name + ".")]
        if sub and fd.label != fd.LABEL_REPEATED:
            strip_unqueryable(v, sub)
        else:
            msg.ClearField(fd.name)


def exercise(ctx):
    from .c01 import import_all
    import_all(ctx)
    install_fake_clock()
    rig = Rig(ctx)
    from google.protobuf import json_format

    poll_prefix = {}

    def rest_ok(m):
        return "rest" in ctx.options.get("transport", "") and bool(m.get("http"))
    classes = values.classes_of(ctx.pool)
    n = int(ctx.inner.get("n", 8))
    for f, svc in ctx.services():
        for m in svc["methods"]:
            if m["output"] != ".google.longrunning.Operation" or m.get("cs") or m.get("ss"):
                continue
            path_ = f"/{f['package']}.{svc['name']}/{m['name']}"
            in_desc = ctx.descriptor(m["input"])
            annotated = m.get("lro") is not None
            if annotated:
                rfull, mfull = resolve(m["lro"]["response"], f["package"]), resolve(m["lro"]["metadata"], f["package"])
                rdesc, mdesc = ctx.pool.FindMessageTypeByName(rfull), ctx.pool.FindMessageTypeByName(mfull)
                rfile_pkg = rdesc.file.package
                case_r = ("empty" if rfull == "google.protobuf.Empty" else "relative" if "." not in m["lro"]["response"] else "qualified",
                          "same-file" if rdesc.file.name == f["name"] else "sub-package" if rfile_pkg != f["package"] else "other-file")
                case_m = ("relative" if "." not in m["lro"]["metadata"] else "qualified", "same-file" if mdesc.file.name == f["name"] else "other-file")
            else:
                rdesc = mdesc = None
                case_r = case_m = ("none",)
            ctx.cls("lro:" + ("annotated" if annotated else "raw-operation"))

            @st.composite
            def scenario(draw, rdesc=rdesc, mdesc=mdesc, in_desc=in_desc):
                k = draw(st.integers(0, 4))
                outcome = draw(st.sampled_from(["response", "response", "response", "error"]))
                code = draw(st.sampled_from(sorted(CODES)))
                kinds = ["sync", "async"] + (["rest", "rest"] if rest_ok(m) else []) + (["arest", "arest"] if rest_ok(m) and ctx.options.get("async_rest") else [])
                kind = draw(st.sampled_from(kinds))
                # over REST the scripted Operation travels as JSON: values that JSON cannot carry unchanged (an unset Value ...) are not drawn
                js = kind in ("rest", "arest")
                payload = draw(values.message(rdesc, classes, max_depth=2, json_safe=js)) if rdesc is not None else None
                meta = draw(values.message(mdesc, classes, max_depth=2, json_safe=js)) if mdesc is not None else None
                req = draw(values.message(in_desc, classes, max_depth=1, json_safe=kind in ("rest", "arest")))
                if kind in ("rest", "arest"):
                    rules = ctx.inner.get("lro_get_rules") or []
                    opname = draw(st.sampled_from(sorted({n for r in rules for n in REST_NAMES[r]}) or REST_DEFAULT_NAMES))
                    # the request has to match the method's primary binding (judged by C04; here it only carries the call)
                    strip_unqueryable(req, T.variables(m["http"]["uri"]))
                    for seg in T.parse_uri(m["http"]["uri"])[0]:
                        if seg[0] == "var":
                            set_string(req, seg[1], draw(var_value(seg[2])))
                    for ab in m["http"].get("additional", []):
                        for v in T.variables(ab["uri"]):
                            if v not in T.variables(m["http"]["uri"]):
                                set_string(req, v, "")
                else:
                    opname = draw(st.sampled_from(["operations/op-1", "projects/p/operations/abc", "op 2"]))
                return k, outcome, code, payload, meta, req, kind, opname

            def one(sc, f=f, svc=svc, m=m, path_=path_, annotated=annotated, rdesc=rdesc, mdesc=mdesc, case_r=case_r, case_m=case_m):
                k, outcome, code, payload, meta, req, kind, opname = sc
                ctx.cls("client:" + kind)
                state = {"polls": 0}

                def pack(msg):
                    a = any_pb2.Any()
                    a.type_url = "type.googleapis.com/" + msg.DESCRIPTOR.full_name
                    a.value = msg.SerializeToString(deterministic=True)
                    return a

                def respond(rec):
                    if rec["method"] == path_:
                        op = operations_pb2.Operation(name=opname, done=False)
                        if meta is not None:
                            op.metadata.CopyFrom(pack(meta))
                        return op.SerializeToString()
                    if rec["method"] == GETOP:
                        gr = operations_pb2.GetOperationRequest.FromString(rec["requests"][0])
                        rec["op_name"] = gr.name
                        state["polls"] += 1
                        op = operations_pb2.Operation(name=opname)
                        if meta is not None:
                            op.metadata.CopyFrom(pack(meta))
                        if state["polls"] > k:
                            op.done = True
                            if outcome == "response":
                                op.response.CopyFrom(pack(payload))
                            else:
                                op.error.CopyFrom(status_pb2.Status(code=code, message="scripted failure"))
                        return op.SerializeToString()
                    raise GrpcError(grpc.StatusCode.UNIMPLEMENTED, "unexpected " + rec["method"])
                def respond_http(rec):
                    rules = ctx.inner.get("lro_get_rules") or []
                    # the first binding (primary first) that the issued name fits is the one that has to be used
                    fit = next((r for r in rules if opname in REST_NAMES[r]), None)
                    is_poll = rec["verb"] == "GET" and rec["path"].endswith("/" + opname) and (
                        rec["path"] == fit.split("{")[0] + opname if fit else True)
                    rec["is_poll"] = is_poll
                    op = operations_pb2.Operation(name=opname, done=False)
                    if meta is not None:
                        op.metadata.CopyFrom(pack(meta))
                    if is_poll:
                        state["polls"] += 1
                        if state["polls"] > k:
                            op.done = True
                            if outcome == "response":
                                op.response.CopyFrom(pack(payload))
                            else:
                                op.error.CopyFrom(status_pb2.Status(code=code, message="scripted failure"))
                    return 200, json_format.MessageToJson(op, descriptor_pool=ctx.pool), {}
                rig.grpc.respond = respond
                rig.grpc.take()
                if kind in ("rest", "arest"):
                    rig.http.respond = respond_http
                    rig.http.take()
                client = rig.client(f, svc, kind)
                meth = getattr(client, client_method_name(m["name"]))
                detail = {"rpc": path_, "client": kind, "k": k, "outcome": outcome, "lro": m.get("lro"), "resolution": [case_r, case_m]}
                if annotated and (k >= 1 or case_r[-1] != "same-file" or case_m[-1] != "same-file"):
                    ctx.nontrivial(["lro", case_r, case_m, k, outcome, kind])
                result = exc = md = fut = None
                try:
                    if kind in ("sync", "rest"):
                        fut = meth(request=to_python(ctx, m["input"], req))
                        if annotated:
                            try:
                                result = fut.result(timeout=120)
                            except Exception as e:
                                exc = e
                            md = fut.metadata
                    else:
                        async def go():
                            fut = await meth(request=to_python(ctx, m["input"], req))
                            res = ex = None
                            if annotated:
                                try:
                                    res = await fut.result(timeout=120)
                                except Exception as e:
                                    ex = e
                                return fut, res, ex, fut.metadata
                            return fut, None, None, None
                        fut, result, exc, md = rig.run(go())
                except Exception as e:
                    import traceback
                    raise Fail("call-raised", f"{path_} ({kind}): {type(e).__name__}: {str(e)[:300]}", dict(detail, traceback=traceback.format_exc()[-1500:]))
                calls = rig.grpc.take()
                polls = [c for c in calls if c["method"] == GETOP]
                first = [c for c in calls if c["method"] == path_]
                if kind in ("rest", "arest"):
                    if calls:
                        raise Fail("rest-used-grpc", f"{path_} (rest): {len(calls)} gRPC calls made by the REST client", detail)
                    hcalls = rig.http.take()
                    polls = [dict(c, op_name=opname) for c in hcalls if c.get("is_poll")]
                    first = [c for c in hcalls if not c.get("is_poll")]
                    # the synchronous and the asynchronous REST transport poll the same place (differential; with the default
                    # rule the prefix comes from the transport)
                    for c in (polls if not (ctx.inner.get("lro_get_rules") or []) else []):
                        seen = poll_prefix.setdefault(svc["name"], {})
                        seen.setdefault(kind, c["path"][: -len(opname)])
                        if len(set(seen.values())) > 1:
                            raise Fail("rest-poll-path-differs", f"{path_}: GetOperation is polled under {seen} by the two REST transports of {svc['name']}", detail)
                if len(first) != 1:
                    raise Fail("call-count", f"{path_} ({kind}): {len(first)} initial calls", detail)
                if not annotated:
                    if polls:
                        raise Fail("raw-operation-polled", f"{path_} ({kind}): method has no operation_info but GetOperation was called {len(polls)} times", detail)
                    if type(fut).__name__ != "Operation" or not hasattr(fut, "SerializeToString") or \
                            operations_pb2.Operation.FromString(fut.SerializeToString()).name != opname:
                        raise Fail("raw-operation-type", f"{path_} ({kind}): expected the raw google.longrunning.Operation, got {type(fut).__module__}.{type(fut).__name__}", detail)
                    return
                if not (hasattr(fut, "result") and hasattr(fut, "done") and hasattr(fut, "operation")):
                    raise Fail("not-a-future", f"{path_} ({kind}): returned {type(fut).__module__}.{type(fut).__name__}, not an operation future", detail)
                if len(polls) != k + 1:
                    raise Fail("poll-count", f"{path_} ({kind}): {len(polls)} GetOperation calls on the channel, the scripted history needs {k + 1}", detail)
                bad = [c.get("op_name") for c in polls if c.get("op_name") != opname]
                if bad:
                    raise Fail("poll-name", f"{path_} ({kind}): polled {bad}, the server issued {opname!r}", detail)
                if outcome == "error":
                    if exc is None:
                        raise Fail("error-not-raised", f"{path_} ({kind}): operation finished with error code {code} but result() returned {result!r}", detail)
                    if "scripted failure" not in str(exc):
                        raise Fail("error-type", f"{path_} ({kind}): error code {code} raised {type(exc).__name__}: {exc} (the server's status message is lost)", detail)
                    return
                if exc is not None:
                    raise Fail("result-raised", f"{path_} ({kind}): result() raised {type(exc).__name__}: {str(exc)[:300]}", detail)
                rcls, _ = python_class(ctx, rdesc.full_name)
                if not isinstance(result, rcls):
                    raise Fail("result-type", f"{path_} ({kind}): result() is {type(result).__module__}.{type(result).__name__}, operation_info names {rdesc.full_name} -> {rcls.__module__}.{rcls.__name__}", detail)
                if classes(rdesc).FromString(to_bytes(result)) != payload:
                    raise Fail("result-payload", f"{path_} ({kind}): result() differs from the packed response",
                               dict(detail, got=str(classes(rdesc).FromString(to_bytes(result)))[:400], want=str(payload)[:400]))
                mcls, _ = python_class(ctx, mdesc.full_name)
                if md is None or not isinstance(md, mcls):
                    raise Fail("metadata-type", f"{path_} ({kind}): metadata is {type(md).__module__}.{type(md).__name__}, operation_info names {mdesc.full_name}", detail)
                if classes(mdesc).FromString(to_bytes(md)) != meta:
                    raise Fail("metadata-payload", f"{path_} ({kind}): metadata differs from the packed metadata",
                               dict(detail, got=str(classes(mdesc).FromString(to_bytes(md)))[:400], want=str(meta)[:400]))

            forall(ctx, scenario(), one, n, label=m["name"], shrink=False)
            ctx.count("methods_exercised")
    ctx.sample({"inner_evaluations": ctx.counters.get("inner_evaluations", 0), "methods": ctx.counters.get("methods_exercised", 0)})
