"""The 'conventional' API profile of DESIGN section 8 (C13): resource-oriented services as the emitted tests are
written for. Included shapes: 8.1; excluded: 8.2 (E0: signatures always cover the HTTP path fields of the primary
binding; E1: no repeated bool at the top level of a unary response)."""
from hypothesis import strategies as st

from . import model as M

PKG = "acme.lib.v1"
P = "." + PKG + "."
WORDS = ["alpha", "beta", "gamma", "delta", "page", "title", "author", "size", "count", "flag", "data", "kind", "state", "labels",
         "tags", "note", "class", "type", "format", "any", "max", "license", "import", "from", "level", "ratio", "payload"]
WKT = [".google.protobuf.Timestamp", ".google.protobuf.Duration", ".google.protobuf.FieldMask", ".google.protobuf.Struct",
       ".google.protobuf.Any", ".google.protobuf.Int32Value", ".google.type.Date", ".google.rpc.Status", ".google.protobuf.Value"]


@st.composite
def conventional_api(draw, lro=True, streaming=True):
    msgs, methods = [], []
    enums = [{"name": "Color", "values": [["COLOR_UNSPECIFIED", 0], ["RED", 1], ["GREEN", 2]]}]
    detail = {"name": "Detail", "fields": [{"name": "note", "number": 1, "type": "string"}, {"name": "weight", "number": 2, "type": "double"}]}
    msgs.append(detail)
    excluded = []

    def rand_fields(m, start, n, allow_required=False, response_top=False):
        used = {f["name"] for f in m["fields"]}
        num = start
        oneof_used = False
        for _ in range(n):
            name = draw(st.sampled_from([w for w in WORDS if w not in used]))
            used.add(name)
            k = draw(st.integers(0, 99))
            f = {"name": name, "number": num}
            if k < 45:
                f["type"] = draw(st.sampled_from(M.SCALAR_NAMES))
            elif k < 55:
                f.update(type="enum", type_name=P + "Color")
            elif k < 65:
                f.update(type="message", type_name=P + "Detail")
            elif k < 75:
                f.update(type="message", type_name=draw(st.sampled_from(WKT)))
            elif k < 85:
                f.update(type="map", map_key=draw(st.sampled_from(["string", "int32", "bool", "int64"])))
                vk = draw(st.integers(0, 9))
                f["map_value"] = {"type": draw(st.sampled_from(M.SCALAR_NAMES))} if vk < 6 else \
                    {"type": "message", "type_name": P + "Detail"} if vk < 8 else {"type": "enum", "type_name": P + "Color"}
            else:
                t = draw(st.sampled_from([s for s in M.SCALAR_NAMES] + ["message", "enum"]))
                if t == "bool" and response_top:
                    excluded.append("E1")        # repeated bool at the top level of a unary response
                    t = "int32"
                f.update(type=t, repeated=True)
                if t == "message":
                    f["type_name"] = P + "Detail"
                elif t == "enum":
                    f["type_name"] = P + "Color"
            if not f.get("repeated") and f["type"] != "map":
                r = draw(st.integers(0, 99))
                if r < 15 and not oneof_used or (r < 15 and "choice" in m["oneofs"]):
                    if "choice" not in m["oneofs"]:
                        m["oneofs"].append("choice")
                    oneof_used = True
                    f["oneof"] = "choice"
                elif r < 30 and f["type"] != "message":
                    f["optional"] = True
                elif r < 45 and allow_required:
                    f["required"] = True
            m["fields"].append(f)
            num += 1

    def required_scalars(m, start):
        """required scalar fields of random kinds (they travel as query parameters when the binding has no '*' body)"""
        used = {f["name"] for f in m["fields"]}
        num = start
        for t in draw(st.lists(st.sampled_from(M.SCALAR_NAMES + ["bool", "bool", "bytes", "string"]), min_size=1, max_size=3)):
            name = draw(st.sampled_from([w for w in WORDS if w not in used]))
            used.add(name)
            m["fields"].append({"name": name, "number": num, "type": t, "required": True})
            num += 1

    def msg(name, fields):
        m = {"name": name, "fields": list(fields), "oneofs": [], "nested": [], "enums": []}
        msgs.append(m)
        return m

    nres = draw(st.integers(1, 2))
    for ri in range(nres):
        R, coll = [("Book", "books"), ("Shelf", "shelves")][ri]
        parent_pat = "" if ri else "shelves/{shelf}/"
        pat = f"{parent_pat}{coll}/{{{R.lower()}}}"
        star = "shelves/*/books/*" if ri == 0 else "shelves/*"
        has_parent = ri == 0
        res = msg(R, [{"name": "name", "number": 1, "type": "string"}])
        res["resource"] = {"type": f"lib.acme.com/{R}", "patterns": [pat]}
        rand_fields(res, 2, draw(st.integers(1, 6)), response_top=True)

        def reqf(name, num, ref=None, child=None, required=True, **kw):
            f = dict({"name": name, "number": num, "type": "string"}, **kw)
            if required:
                f["required"] = True
            if ref:
                f["ref"] = {"type": ref}
            if child:
                f["ref"] = {"child_type": child}
            return f
        ops = draw(st.lists(st.sampled_from(["get", "list", "create", "update", "delete", "custom"]), min_size=2, max_size=6, unique=True))
        if "get" in ops:
            g = msg(f"Get{R}Request", [reqf("name", 1, ref=f"lib.acme.com/{R}")])
            if draw(st.booleans()):
                rand_fields(g, 2, draw(st.integers(1, 3)), allow_required=True)
            if draw(st.booleans()):
                required_scalars(g, 20)
            methods.append({"name": f"Get{R}", "input": P + f"Get{R}Request", "output": P + R,
                            "http": {"verb": "get", "uri": f"/v1/{{name={star}}}"}, "signatures": ["name"]})
        if "list" in ops:
            lf = ([reqf("parent", 1, child=f"lib.acme.com/{R}")] if has_parent else []) + [
                {"name": "page_size", "number": 2, "type": "int32"}, {"name": "page_token", "number": 3, "type": "string"},
                {"name": "filter", "number": 4, "type": "string"}]
            msg(f"List{R}sRequest", lf)
            item = draw(st.sampled_from(["message", "message", "message", "map", "string"]))
            itemf = {"name": coll, "number": 1, "type": "message", "type_name": P + R, "repeated": True}
            if item == "map":
                itemf = {"name": coll, "number": 1, "type": "map", "map_key": "string", "map_value": {"type": "message", "type_name": P + R}}
            elif item == "string":
                itemf = {"name": coll, "number": 1, "type": "string", "repeated": True}
            msg(f"List{R}sResponse", [itemf, {"name": "next_page_token", "number": 2, "type": "string"}])
            m = {"name": f"List{R}s", "input": P + f"List{R}sRequest", "output": P + f"List{R}sResponse",
                 "http": {"verb": "get", "uri": "/v1/{parent=shelves/*}/" + coll if has_parent else f"/v1/{coll}"}}
            if has_parent:
                m["signatures"] = ["parent"]
            methods.append(m)
        if "create" in ops:
            cf = ([reqf("parent", 1, child=f"lib.acme.com/{R}")] if has_parent else []) + [
                reqf(R.lower(), 2, type="message", type_name=P + R), {"name": f"{R.lower()}_id", "number": 3, "type": "string"}]
            msg(f"Create{R}Request", cf)
            is_lro = lro and draw(st.booleans())
            m = {"name": f"Create{R}", "input": P + f"Create{R}Request", "output": ".google.longrunning.Operation" if is_lro else P + R,
                 "http": {"verb": "post", "uri": "/v1/{parent=shelves/*}/" + coll if has_parent else f"/v1/{coll}", "body": R.lower()},
                 "signatures": [("parent," if has_parent else "") + f"{R.lower()},{R.lower()}_id"]}
            if is_lro:
                m["lro"] = {"response": R, "metadata": "Detail"}
            methods.append(m)
        if "update" in ops:
            msg(f"Update{R}Request", [reqf(R.lower(), 1, type="message", type_name=P + R),
                                      {"name": "update_mask", "number": 2, "type": "message", "type_name": ".google.protobuf.FieldMask"}])
            methods.append({"name": f"Update{R}", "input": P + f"Update{R}Request", "output": P + R,
                            "http": {"verb": "patch", "uri": f"/v1/{{{R.lower()}.name={star}}}", "body": R.lower()},
                            "signatures": [f"{R.lower()},update_mask"]})
        if "delete" in ops:
            msg(f"Delete{R}Request", [reqf("name", 1, ref=f"lib.acme.com/{R}")])
            methods.append({"name": f"Delete{R}", "input": P + f"Delete{R}Request", "output": ".google.protobuf.Empty",
                            "http": {"verb": "delete", "uri": f"/v1/{{name={star}}}"}, "signatures": ["name"]})
        if "custom" in ops:
            c = msg(f"Frob{R}Request", [reqf("name", 1, ref=f"lib.acme.com/{R}")])
            rand_fields(c, 2, draw(st.integers(0, 4)), allow_required=True)
            if draw(st.booleans()):
                required_scalars(c, 20)
            cr = msg(f"Frob{R}Response", [])
            rand_fields(cr, 1, draw(st.integers(0, 3)), response_top=True)
            ss = streaming and draw(st.integers(0, 9)) < 3
            body = draw(st.sampled_from(["*", "*", None]))
            uri = f"/v1/{{name={star}}}:frob"
            sig = ["name"]
            if draw(st.integers(0, 3)) == 0:
                # a second path variable named by a reserved word (covered by the signature, as the profile requires)
                used = {x["name"] for x in c["fields"]}
                word = draw(st.sampled_from([w for w in ("from", "type", "class", "format", "license", "import") if w not in used]))
                c["fields"].append({"name": word, "number": 40, "type": "string", "required": True})
                uri = f"/v1/{{name={star}}}/parts/{{{word}}}:frob"
                sig = [f"name,{word}"]
            m = {"name": f"Frob{R}", "input": P + f"Frob{R}Request", "output": P + f"Frob{R}Response",
                 "http": {"verb": "post", "uri": uri}}
            if body:
                m["http"]["body"] = body
            if draw(st.integers(0, 7)) == 0:
                # bound through the `custom` pattern (HEAD): no REST binding is emitted, the gRPC surface and its tests remain
                m["http"] = {"verb": "custom", "kind": "HEAD", "uri": uri}
            if ss:
                m["ss"] = True
            if draw(st.booleans()) or len(sig[0].split(",")) > 1:
                m["signatures"] = sig
            methods.append(m)
    if streaming and draw(st.booleans()):
        methods.append({"name": "Chat", "input": P + "Detail", "output": P + "Detail", "cs": True, "ss": draw(st.booleans())})
    # the default host may carry an explicit port (showcase: localhost:7469)
    svc = {"name": "Library", "host": draw(st.sampled_from(["lib.acme.com"] * 4 + ["lib.acme.com:8443"])),
           "scopes": ["https://www.googleapis.com/auth/cloud-platform"], "methods": methods}
    if draw(st.integers(0, 4)) == 0:
        svc["api_version"] = "v1_20240101"
    api = {"files": [{"name": "acme/lib/v1/lib.proto", "package": PKG, "messages": msgs, "enums": enums, "services": [svc]}]}
    if excluded:
        api["_excluded"] = sorted(set(excluded))
    return api


MIXIN_RULES = {
    "google.cloud.location.Locations": [
        {"selector": "google.cloud.location.Locations.GetLocation", "get": "/v1/{name=projects/*/locations/*}"},
        {"selector": "google.cloud.location.Locations.ListLocations", "get": "/v1/{name=projects/*}/locations"}],
    "google.iam.v1.IAMPolicy": [
        {"selector": "google.iam.v1.IAMPolicy.SetIamPolicy", "post": "/v1/{resource=shelves/*}:setIamPolicy", "body": "*"},
        {"selector": "google.iam.v1.IAMPolicy.GetIamPolicy", "post": "/v1/{resource=shelves/*}:getIamPolicy", "body": "*"},
        {"selector": "google.iam.v1.IAMPolicy.TestIamPermissions", "post": "/v1/{resource=shelves/*}:testIamPermissions", "body": "*"}],
    "google.longrunning.Operations": [
        {"selector": "google.longrunning.Operations.ListOperations", "get": "/v1/{name=projects/*}/operations"},
        {"selector": "google.longrunning.Operations.GetOperation", "get": "/v1/{name=operations/*}"},
        {"selector": "google.longrunning.Operations.DeleteOperation", "delete": "/v1/{name=operations/*}"},
        {"selector": "google.longrunning.Operations.CancelOperation", "post": "/v1/{name=operations/*}:cancel", "body": "*"}],
}
