"""A few fixed, hand-written API models (seed inputs; also the pool of real emitted files for C20)."""
import copy

P = ".acme.lib.v1."


def library():
    book = {"name": "Book", "comment": " A single book in the library.\n Second line: with colon.\n",
            "fields": [
                {"name": "name", "number": 1, "type": "string", "comment": " The resource name.\n"},
                {"name": "class", "number": 2, "type": "string"},
                {"name": "pages", "number": 3, "type": "int32", "optional": True},
                {"name": "kind", "number": 4, "type": "enum", "type_name": P + "Book.Kind"},
                {"name": "cover", "number": 5, "type": "message", "type_name": P + "Book.Cover"},
                {"name": "labels", "number": 6, "type": "map", "map_key": "string", "map_value": {"type": "string"}},
                {"name": "sequels", "number": 7, "type": "message", "type_name": P + "Book", "repeated": True},
                {"name": "isbn", "number": 8, "type": "string", "oneof": "ident"},
                {"name": "serial", "number": 9, "type": "int64", "oneof": "ident"},
                {"name": "published", "number": 10, "type": "message", "type_name": ".google.protobuf.Timestamp"},
            ],
            "oneofs": ["ident"],
            "nested": [{"name": "Cover", "fields": [{"name": "art", "number": 1, "type": "bytes"}]}],
            "enums": [{"name": "Kind", "values": [["KIND_UNSPECIFIED", 0], ["HARD", 1], ["SOFT", 2]]}],
            "resource": {"type": "lib.acme.com/Book", "patterns": ["shelves/{shelf}/books/{book}"]}}
    msgs = [
        book,
        {"name": "GetBookRequest", "fields": [{"name": "name", "number": 1, "type": "string", "required": True,
                                               "ref": {"type": "lib.acme.com/Book"}}]},
        {"name": "ListBooksRequest", "fields": [
            {"name": "parent", "number": 1, "type": "string", "required": True, "ref": {"child_type": "lib.acme.com/Book"}},
            {"name": "page_size", "number": 2, "type": "int32"},
            {"name": "page_token", "number": 3, "type": "string"},
            {"name": "filter", "number": 4, "type": "string"}]},
        {"name": "ListBooksResponse", "fields": [
            {"name": "books", "number": 1, "type": "message", "type_name": P + "Book", "repeated": True},
            {"name": "next_page_token", "number": 2, "type": "string"}]},
        {"name": "CreateBookRequest", "fields": [
            {"name": "parent", "number": 1, "type": "string", "required": True},
            {"name": "book", "number": 2, "type": "message", "type_name": P + "Book", "required": True},
            {"name": "book_id", "number": 3, "type": "string"}]},
        {"name": "WriteMeta", "fields": [{"name": "progress", "number": 1, "type": "int32"}]},
        {"name": "Note", "fields": [{"name": "text", "number": 1, "type": "string"}]},
    ]
    methods = [
        {"name": "GetBook", "input": P + "GetBookRequest", "output": P + "Book", "comment": " Gets a book.\n",
         "http": {"verb": "get", "uri": "/v1/{name=shelves/*/books/*}"}, "signatures": ["name"]},
        {"name": "ListBooks", "input": P + "ListBooksRequest", "output": P + "ListBooksResponse",
         "http": {"verb": "get", "uri": "/v1/{parent=shelves/*}/books"}, "signatures": ["parent"]},
        {"name": "CreateBook", "input": P + "CreateBookRequest", "output": P + "Book",
         "http": {"verb": "post", "uri": "/v1/{parent=shelves/*}/books", "body": "book"},
         "signatures": ["parent,book,book_id"]},
        {"name": "DeleteBook", "input": P + "GetBookRequest", "output": ".google.protobuf.Empty",
         "http": {"verb": "delete", "uri": "/v1/{name=shelves/*/books/*}"}, "signatures": ["name"]},
        {"name": "WriteBook", "input": P + "CreateBookRequest", "output": ".google.longrunning.Operation",
         "http": {"verb": "post", "uri": "/v1/{parent=shelves/*}/books:write", "body": "*"},
         "lro": {"response": "Book", "metadata": "WriteMeta"}},
        {"name": "StreamNotes", "input": P + "GetBookRequest", "output": P + "Note", "ss": True,
         "http": {"verb": "get", "uri": "/v1/{name=shelves/*/books/*}:notes"}},
        {"name": "Chat", "input": P + "Note", "output": P + "Note", "cs": True, "ss": True},
        {"name": "Upload", "input": P + "Note", "output": P + "Book", "cs": True},
    ]
    return {"files": [{"name": "acme/lib/v1/lib.proto", "package": "acme.lib.v1", "messages": msgs,
                       "enums": [{"name": "Color", "values": [["COLOR_UNSPECIFIED", 0], ["RED", 1]]}],
                       "services": [{"name": "Library", "host": "lib.acme.com",
                                     "scopes": ["https://www.googleapis.com/auth/cloud-platform"],
                                     "comment": " The library service.\n", "methods": methods}]}]}


def small_set():
    return [(library(), {"params": ["transport=grpc+rest"]})]
