"""Dependency FileDescriptorProtos copied from the installed packages' default pool --
the same bytes protoc would hand the plug-in for these imports."""
from google.protobuf import descriptor_pb2 as dp, descriptor_pool

# importing the pb2 modules registers their files in the default pool
from google.protobuf import (any_pb2, duration_pb2, empty_pb2, field_mask_pb2, struct_pb2,  # noqa
                             timestamp_pb2, wrappers_pb2, descriptor_pb2)
from google.api import (annotations_pb2, client_pb2, field_behavior_pb2, resource_pb2,  # noqa
                        http_pb2, routing_pb2, field_info_pb2, httpbody_pb2, launch_stage_pb2)
from google.longrunning import operations_pb2  # noqa
from google.rpc import status_pb2, code_pb2, error_details_pb2  # noqa
from google.type import (date_pb2, expr_pb2, latlng_pb2, money_pb2, timeofday_pb2,  # noqa
                         color_pb2, dayofweek_pb2, interval_pb2, postal_address_pb2)
from google.iam.v1 import iam_policy_pb2, policy_pb2, options_pb2  # noqa
from google.cloud.location import locations_pb2  # noqa
try:
    from google.cloud import extended_operations_pb2  # noqa
except Exception:  # pragma: no cover
    extended_operations_pb2 = None

_cache = {}


def _copy(name):
    if name not in _cache:
        fd = descriptor_pool.Default().FindFileByName(name)
        p = dp.FileDescriptorProto()
        fd.CopyToProto(p)
        _cache[name] = (p, [d.name for d in fd.dependencies])
    return _cache[name]


def dep_files(names):
    """Transitive closure, topologically ordered (dependencies first)."""
    out, seen = [], set()

    def visit(n):
        if n in seen:
            return
        seen.add(n)
        p, ds = _copy(n)
        for d in ds:
            visit(d)
        q = dp.FileDescriptorProto()
        q.CopyFrom(p)
        out.append(q)
    for n in names:
        visit(n)
    return out


def file_of_symbol(full_name):
    pool = descriptor_pool.Default()
    try:
        return pool.FindFileContainingSymbol(full_name).name
    except KeyError:
        raise ValueError(f"model error: unknown type {full_name}")
