"""known_findings.json: loader, matcher. The file is read-only at run time.

{"open": {"<finding id>": {"properties": ["C05", ...], "what": "...",
                           "kind": "<violation kind, exact>",
                           "msg_contains": ["fragment", ...],      # all must occur
                           "predicate": "<name of a function in harness.finding_predicates>",  # optional, on the case
                           "replays": {"C05": "replays/C05/finding-....json"}}},
 "fixed": ["fixed: property=<id> <commit> <what failed>", ...]}
"""
import glob, json, os
from . import common

PATH = os.path.join(common.VERIF, "known_findings.json")


def load():
    if not os.path.exists(PATH):
        return {"open": {}, "fixed": []}
    with open(PATH) as fh:
        d = json.load(fh)
    d.setdefault("open", {})
    d.setdefault("fixed", [])
    return d


def signature_matches(entry, vj):
    if entry.get("kind") and entry["kind"] != vj.get("kind"):
        return False
    text = (vj.get("msg") or "") + json.dumps(vj.get("detail"), default=str)
    return all(frag in text for frag in entry.get("msg_contains", []))


def match(known, pid, vj, case):
    for fid, e in known["open"].items():
        if pid not in e.get("properties", []):
            continue
        if not signature_matches(e, vj):
            continue
        pred = e.get("predicate")
        if pred:
            from . import finding_predicates
            if not getattr(finding_predicates, pred)(case):
                continue
        return fid
    return None


def replay_cases(pid):
    """-> (seed cases [(path, case)], finding cases [(finding id, case)])"""
    seeds = []
    for p in sorted(glob.glob(os.path.join(common.VERIF, "replays", pid, "seed-*.json"))):
        with open(p) as fh:
            d = json.load(fh)
        seeds.append((p, d["case"] if "case" in d else d))
    fcases = []
    for fid, e in load()["open"].items():
        rp = e.get("replays", {}).get(pid)
        if rp:
            with open(os.path.join(common.VERIF, rp)) as fh:
                d = json.load(fh)
            fcases.append((fid, d["case"] if "case" in d else d))
    return seeds, fcases
