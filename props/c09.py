"""C09 — default retry and timeout of each method equal its gRPC service-config entry."""
from hypothesis import strategies as st
from harness import common, strategies as S
from props import common_gen as G

ID = "C09"
LEVEL = "fault_enumeration"
RULE = ("Hypothesis over APIs x gRPC service configs (0..4 methodConfig entries, entries naming 1..3 methods, timeout with/without "
        "retryPolicy, fractional durations, retryableStatusCodes drawn from all 16 non-OK canonical codes) x inner fault sequences per "
        "method on sync and asyncio clients: plain call | retryable^k (k <= 4) then OK | an unlisted code | a server failing forever | a server "
        "recovering after 150 s of fake time under a policy without timeout | "
        "fault on a method not named | explicit per-call timeout | explicit per-call retry on an unlisted code. The harness owns the "
        "clock (sleeps are recorded, return at once and advance time.monotonic). Oracle at the loopback server: attempt count, "
        "per-attempt deadline (<= entry timeout and >= timeout - measured elapsed - 0.35s; absent without timeout), waits <= "
        "min(initial*multiplier^i, max), give-up near the entry timeout, single attempt for unlisted codes / unnamed methods, overrides "
        "win. REST leg (transport grpc+rest, unary and server-streaming methods with a binding): the timeout handed to the HTTP session "
        "(observed by wrapping AuthorizedSession.request; the request still reaches the loopback server) is the entry's timeout or the "
        "explicit per-call one. Non-trivial: retry sequence with k >= 1 on a named method, forever-failing server, or an override; distinct = (entry "
        "shape, timeout?, mode, k, codes, client).")
ASSUMPTIONS = ["retryPolicy.maxAttempts is not part of the statement: fault sequences stay within it",
               "service-wide entries ({service} without method) are not generated",
               "deadline lower bound allows 0.35 s beyond the measured elapsed real time"]


def budget(tier):
    return {"shards": 16, "examples": 14 if tier == "quick" else 200, "wall": 170 if tier == "quick" else 1500}


@st.composite
def _case(draw):
    prof = S.profile(max_methods=5, max_services=2, p_http=0.55, p_sig=0.1, p_routing=0.05, p_paged=0.08, p_lro=0.03, p_stream=0.15,
                     p_dep_io=0.05, p_comment=0.02, max_messages=3, max_fields=3, max_files=3, p_resource=0.05,
                     services_in_subpackages=True, p_subpackage=0.4)
    api = draw(S.apis(prof))
    t = draw(st.sampled_from(["grpc", "grpc+rest"]))
    opts = {"params": ["autogen-snippets=False", f"transport={t}"], "snippets": False, "transport": t}
    opts["retry_config"] = draw(S.retry_configs(api))
    return {"api": api, "options": opts, "inner": {"seed": draw(st.integers(0, 2 ** 31)), "n": 10}}


def strategy(tier):
    return _case()


def run_case(case, rec):
    api, options = case["api"], case["options"]
    with common.scratch("c09") as d:
        res, req = G.generate_checked(api, options, d, rec, ID)
        G.run_exerciser(ID, api, options, dict(case["inner"]), res, req, d, rec)
