"""C11 — the emitted file set is well-formed and placed by package-derived naming (response-level)."""
import json, os, re
from hypothesis import strategies as st
from harness import common, driver, strategies as S, model as M
from harness.engine import Violation, HarnessError
from harness.refmodels import naming as N
from harness.exerciser.base import snake
from props import common_gen as G

ID = "C11"
LEVEL = "exploration"
RULE = ("Hypothesis over naming-heavy requests: packages with 1..3 namespace segments (0 is a listed known finding), versions "
        "v1/v2/v1beta1/v1p1beta1/v2alpha/none, 1..3 target files in root and sub-packages, proto file names needing sanitising "
        "(dots, dashes, upper case, digits, keywords, metadata/retry/timeout/request), dependency-only files with their own "
        "messages and services (also in a package that merely shares a string prefix) x option strings (transport, metadata, "
        "snippets, name/namespace/warehouse overrides, unknown keys incl. values with '=', '+', spaces, empty items, repeated "
        "keys). Oracle: reference naming model (refmodels/naming.py) + structural rules from the statement + metamorphic relation "
        "response(options + unknown) == response(options). Non-trivial: >=2 target files or a sub-package or an override or an "
        "unknown option or a dependency-only file; distinct = (ns depth, version class, #files, sub-packages, dep file, odd "
        "names, option classes).")
ASSUMPTIONS = ["proto files without messages and enums: their types module is measured, not judged (the statement's 'one types module "
               "per file' and 'no empty modules' clauses conflict there)",
               "namespace directories (PEP 420) above the package root need no __init__.py"]
SHRINK = {"quick": False, "thorough": True}

NON_LIBRARY_TOP = ("tests/", "docs/", "scripts/", "samples/", "testing/")
UNKNOWN = ["foo", "foo=bar", "python-gapic-foo=bar", "foo=a=b", "x=1+2", "some key=some value", "", " ", "go-gapic-package=a/b;c",
           "python-gapic-unknown", "retry-config-typo=/nonexistent", "Transport=rest", "transport_=rest", "metadatax"]


def budget(tier):
    return {"shards": 16, "examples": 45 if tier == "quick" else 1200, "wall": 170 if tier == "quick" else 1500}


@st.composite
def _case(draw):
    prof = S.profile(max_files=3, p_subpackage=0.45, max_methods=2, max_services=2, max_messages=3, max_fields=3, p_http=0.3,
                     p_sig=0.1, p_routing=0.0, p_paged=0.1, p_lro=0.1, p_comment=0.02, odd_file_names=True, dep_only_file=True,
                     p_foreign_io=0.2, p_nested=0.2)
    api = draw(S.apis(prof))
    opts = draw(S.option_sets())
    if draw(st.integers(0, 3)) == 0:
        nm = draw(st.sampled_from(["custom", "my_custom_name", "x2"]))
        opts["params"].append(f"python-gapic-name={nm}")
        opts["name"] = nm
    if draw(st.integers(0, 3)) == 0:
        ns = draw(st.sampled_from(["alpha", "alpha.beta", "google.cloud"]))
        opts["params"].append(f"python-gapic-namespace={ns}")
        opts["namespace"] = [ns]
    if draw(st.integers(0, 4)) == 0:
        opts["params"].append("warehouse-package-name=acme-custom-dist")
    if opts.get("transport") in ("grpc", None) and draw(st.integers(0, 4)) == 0:
        # the alternative (ads) template set with its legacy directory layout (%namespace/%name/%version/%sub)
        opts["params"] += ["python-gapic-templates=ads-templates", "old-naming"]
        opts["old_naming"] = True
        opts["snippets"] = False
        opts["ads"] = True
    unknown = draw(st.lists(st.sampled_from(UNKNOWN), max_size=3))
    rep = draw(st.sampled_from([[], [], ["metadata"], ["autogen-snippets=False"]]))
    return {"api": api, "options": opts, "unknown": unknown, "repeated": rep, "positions": draw(st.integers(0, 5))}


def strategy(tier):
    return _case()


def _norm_mod(s):
    return re.sub(r"[^a-z0-9]", "", s.lower())


def check_response(res, api, options, naming, rec):
    files = res.response.file
    names = [f.name for f in files]
    V = lambda kind, msg: Violation(kind, msg, {"api": api, "options": options})
    if len(set(names)) != len(names):
        dup = sorted({n for n in names if names.count(n) > 1})
        raise V("name-duplicate", f"duplicate response file names: {dup[:5]}")
    for n in names:
        segs = n.split("/")
        if n.startswith("/") or "\\" in n or any(s in ("", ".", "..") for s in segs):
            raise V("name-not-normalised", f"response file name {n!r} is not relative and normalised")
    if not (res.response.supported_features & 1):
        raise V("proto3-optional-bit", "supported_features lacks FEATURE_PROTO3_OPTIONAL")
    vdir, udir = naming["versioned_dir"] + "/", naming["unversioned_dir"] + "/"
    lib_py = [n for n in names if n.endswith(".py") and "/" in n and not n.startswith(NON_LIBRARY_TOP)]
    for n in lib_py:
        if not (n.startswith(vdir) or n.startswith(udir)):
            raise V("placement", f"library source {n!r} is outside {vdir!r} and {udir!r} (package {naming['root_package']!r}, "
                    f"name override {options.get('name')!r}, namespace override {options.get('namespace')!r})")
    nameset = set(names)
    for n in names:
        if not n.endswith(".py"):
            continue
        root = None
        for r in (vdir, udir, "tests/"):
            if n.startswith(r):
                root = r
        if root is None:
            continue
        d = os.path.dirname(n)
        while len(d) >= len(root.rstrip("/")):
            if d + "/__init__.py" not in nameset:
                raise V("init-missing", f"directory {d!r} holds {n!r} but has no __init__.py")
            if d == root.rstrip("/"):
                break
            d = os.path.dirname(d)
    for n in lib_py:
        for seg in n[:-3].split("/"):
            if not seg.isidentifier():
                raise V("module-name-invalid", f"library source {n!r}: path segment {seg!r} is not a valid Python identifier, the module cannot be imported")
    for f in files:
        base = f.name.rsplit("/", 1)[-1]
        if base.startswith("_") and base != "__init__.py":
            raise V("underscore-file", f"underscore-prefixed file emitted: {f.name!r}")
        if f.name.endswith(".py") and base != "__init__.py" and not f.content.strip():
            raise V("empty-module", f"empty module emitted: {f.name!r}")
    # types modules <-> target proto files, service packages <-> target services
    targets = [x for x in api["files"] if x["name"] in (api.get("file_to_generate") or [y["name"] for y in api["files"]])]
    deps = [x for x in api["files"] if x not in targets]
    root_pkg = naming["root_package"]
    exp_types, exp_svcs = {}, {}
    for x in targets:
        sub = x["package"][len(root_pkg):].strip(".").replace(".", "/")
        tdir = naming["versioned_dir"] + ("/" + sub if sub else "") + "/types/"
        base = x["name"].rsplit("/", 1)[-1][:-len(".proto")]
        if x.get("messages") or x.get("enums"):
            exp_types.setdefault(tdir, []).append(base)
        for s in x.get("services", []):
            sdir = naming["versioned_dir"] + ("/" + sub if sub else "") + "/services/"
            exp_svcs.setdefault(sdir, []).append(s["name"])
    got_types = {}
    for n in names:
        m = re.match(r"^(.*/types/)([^/]+)\.py$", n)
        if m and m.group(2) != "__init__" and n.startswith(vdir):
            got_types.setdefault(m.group(1), []).append(m.group(2))
    for tdir, bases in exp_types.items():
        got = got_types.get(tdir, [])
        want = sorted(_norm_mod(re.sub(r"[^A-Za-z0-9_]", "_", snake(b))) for b in bases)
        have = sorted(_norm_mod(g) for g in got)
        extra_ok = [g for g in have if g not in want]
        missing = list(want)
        for h in have:
            if h in missing:
                missing.remove(h)
        if missing:
            raise V("types-module-missing", f"{tdir}: proto files {bases} but types modules {got}")
    all_file_bases = {_norm_mod(re.sub(r"[^A-Za-z0-9_]", "_", snake(x["name"].rsplit("/", 1)[-1][:-6]))) for x in targets}
    for tdir, got in got_types.items():
        for g in got:
            if _norm_mod(g) not in all_file_bases:
                raise V("types-module-extra", f"{tdir}{g}.py does not correspond to any target proto file (targets {[x['name'] for x in targets]}, "
                        f"dependency-only {[x['name'] for x in deps]})")
    got_svcs = {}
    for n in names:
        m = re.match(r"^(.*/services/)([^/]+)/__init__\.py$", n)
        if m and n.startswith(vdir):
            got_svcs.setdefault(m.group(1), []).append(m.group(2))
    want_all = sorted((d, snake(s)) for d, ss in exp_svcs.items() for s in ss)
    have_all = sorted((d, s) for d, ss in got_svcs.items() for s in ss)
    if want_all != have_all:
        raise V("service-packages", f"service packages {have_all} but target services {want_all} (dependency-only services "
                f"{[s['name'] for x in deps for s in x.get('services', [])]})")
    for d, s in have_all:
        for need in ("client.py", "transports/__init__.py"):
            if f"{d}{s}/{need}" not in nameset:
                raise V("service-package-incomplete", f"{d}{s}/ lacks {need}")
    for x in deps:
        for tok in (x["package"].replace(".", "/"),):
            bad = [n for n in names if ("/" + tok + "/") in ("/" + n) and not n.startswith(("docs/", "samples/"))]
            if bad and not x["package"].startswith(root_pkg + "."):
                raise V("dependency-emitted", f"paths derived from dependency-only package {x['package']}: {bad[:3]}")


def run_case(case, rec):
    api, options = case["api"], case["options"]
    naming = N.expected(api, options)
    ns_depth = len(naming["namespace"])
    targets = api.get("file_to_generate") or [f["name"] for f in api["files"]]
    with common.scratch("c11") as d:
        res, req = G.generate_checked(api, options, d, rec, ID)
        check_response(res, api, options, naming, rec)
        # metamorphic: unknown options are ignored; repeated known keys keep the first value
        extra = list(case["unknown"])
        if extra:
            params = list(options["params"])
            pos = case["positions"] % (len(params) + 1)
            params2 = params[:pos] + extra + params[pos:]
            opt2 = dict(options, params=params2)
            with common.scratch("c11b") as d2:
                try:
                    res2, _ = driver.generate(api, opt2, d2)
                except Exception as e:
                    raise HarnessError(str(e))
            if res2.error is not None:
                raise Violation("unknown-option-raised", f"unknown options {extra} made generation raise {type(res2.error).__name__}: {res2.error}",
                                {"api": api, "options": opt2})
            a = {f.name: f.content for f in res.response.file}
            b = {f.name: f.content for f in res2.response.file}
            if a != b:
                diff = sorted(set(a) ^ set(b)) or [n for n in a if a[n] != b[n]]
                raise Violation("unknown-option-changed-output", f"unknown options {extra} changed the response (first differing file {diff[0]!r})",
                                {"api": api, "options": opt2})
    odd = any(re.search(r"[^a-z0-9_]", f["name"].rsplit("/", 1)[-1][:-6]) or f["name"].rsplit("/", 1)[-1][:-6] in
              ("class", "import", "metadata", "retry", "request", "timeout") for f in api["files"])
    sig = [ns_depth, naming["version"] or "none", len(targets), len({f["package"] for f in api["files"] if f["name"] in targets}) > 1,
           len(targets) != len(api["files"]), odd, bool(options.get("name")), bool(options.get("namespace")), sorted(set(case["unknown"]))]
    for k, v in (("ns-depth", ns_depth), ("version", naming["version"] or "none"), ("targets", len(targets)), ("dep-file", len(targets) != len(api["files"])), ("odd-names", odd)):
        rec.cls(f"{k}:{v}")
    if len(targets) >= 2 or sig[3] or sig[4] or options.get("name") or options.get("namespace") or case["unknown"]:
        rec.nontrivial(sig)
    rec.sample({"packages": sorted({f["package"] for f in api["files"]}), "files": [f["name"] for f in api["files"]], "targets": targets,
                "params": options["params"], "unknown": case["unknown"], "emitted": len(res.response.file)}, cap=4)
