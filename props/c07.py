"""C07 — paginated methods yield every item of every page exactly once, in order."""
from hypothesis import strategies as st
from harness import common, strategies as S
from props import common_gen as G

ID = "C07"
LEVEL = "exploration"
RULE = ("Hypothesis over paging-shaped API models: per method the AIP-4233 ingredients are drawn independently (page_token: "
        "string|int32|repeated string|absent; page_size: int32|int64|uint32|string|absent; max_results: absent|int32|uint32|"
        "Int32Value|UInt32Value|string; next_page_token: string|int32|absent at any position; 0..3 repeated response fields of "
        "message/scalar/enum/bytes/map kind among singular ones) x inner page histories (1..5 pages, 0..3 items per page incl. "
        "empty intermediate pages, extra pages scripted after the first empty token, initial request valuation and start token, "
        "explicit timeout+metadata on/off, sync|asyncio). Oracle: reference classification (refmodels/paging.py) vs returned type; "
        "items == concatenation of the first repeated field in order; request i == initial request with page_token = token i-1; "
        "call options identical on every fetch; nothing fetched after the first empty token; pager attributes are the last page's. "
        "Non-trivial: >=2 pages, or a classification boundary (exactly one ingredient missing/mistyped, or legacy max_results).")
ASSUMPTIONS = ["page_size of wrapper type is not generated (the statement allows wrappers only for max_results)",
               "item order inside a map page is the page's own iteration order"]


def budget(tier):
    return {"shards": 16, "examples": 14 if tier == "quick" else 220, "wall": 170 if tier == "quick" else 1500}


@st.composite
def _case(draw):
    prof = S.profile(dep_only_file=0.2, services_in_subpackages=True, max_methods=5, max_services=2, p_http=0.4, p_sig=0.15, p_routing=0.1, p_paged=0.75, p_lro=0.03,
                     p_stream=0.05, p_dep_io=0.08, p_comment=0.03, max_messages=4, max_fields=5, p_resource=0.1,
                     max_files=2, paged_variants=True)
    api = draw(S.apis(prof))
    opts = {"params": ["autogen-snippets=False"], "snippets": False, "transport": "grpc"}
    return {"api": api, "options": opts, "inner": {"seed": draw(st.integers(0, 2 ** 31)), "n": 8}}


def strategy(tier):
    return _case()


def run_case(case, rec):
    api, options = case["api"], case["options"]
    for c in G.shape_classes(api):
        rec.cls("shape:" + c)
    with common.scratch("c07") as d:
        res, req = G.generate_checked(api, options, d, rec, ID)
        G.run_exerciser(ID, api, options, dict(case["inner"]), res, req, d, rec)
