"""C10 — generation is a pure, deterministic function of the request."""
import hashlib, os
from concurrent.futures import ThreadPoolExecutor
from hypothesis import strategies as st
from google.protobuf.compiler import plugin_pb2
from harness import common, driver, strategies as S, model as M
from harness.engine import Violation, HarnessError
from props import common_gen as G

ID = "C10"
LEVEL = "exploration"
RULE = ("Hypothesis over order-sensitive requests (several resources incl. equal short type names on different hosts, names that "
        "differ only in letter case, many imported modules, several services, retry configs with several status codes, dependency-"
        "only files, snippets and metadata on, 1..3 files) x K separate processes running the real CLI (python -m gapic.cli.generate) "
        "with PYTHONHASHSEED in {0, 1, s...} (3 quick / 6 thorough), different working directories and TZ values. Oracle: all "
        "serialized CodeGeneratorResponses byte-identical; on mismatch the first differing file and line are reported. Non-trivial: "
        ">=3 resources or >=3 imported modules or >=2 services or case twins; distinct = (#resources, #services, #files, twins, "
        "retry codes, transport, snippets).")
ASSUMPTIONS = ["pandoc stubbed by identity in every process (no pandoc binary): non-determinism inside pandoc itself is out of reach",
               "hash seeds are sampled, not exhausted"]


def budget(tier):
    return {"shards": 16, "examples": 9 if tier == "quick" else 120, "wall": 170 if tier == "quick" else 1500}


@st.composite
def _case(draw):
    prof = S.profile(max_files=3, max_services=3, max_methods=4, max_messages=6, p_resource=0.7, twin_resources=True, case_twins=True,
                     p_dep_type=0.3, p_http=0.6, p_sig=0.4, p_routing=0.1, p_paged=0.15, p_lro=0.15, p_comment=0.2, dep_only_file=True,
                     p_subpackage=0.3, p_foreign_io=0.15, extended_operations=0.3, required_fields=True, p_required=0.35, p_host_per_service=0.3)
    api = draw(S.apis(prof))
    opts = draw(S.option_sets(snippets=True if draw(st.integers(0, 3)) else False, metadata=True))
    if draw(st.booleans()):
        opts["retry_config"] = draw(S.retry_configs(api))
    if draw(st.integers(0, 2)) == 0:
        # service YAML with mixin APIs and their HTTP rules (rule order drawn)
        from harness import conventional as CV
        mix = [a for a in CV.MIXIN_RULES if draw(st.booleans())] or list(CV.MIXIN_RULES)[:1]
        rules = draw(st.permutations([r for a in mix for r in CV.MIXIN_RULES[a]]))
        host = next((s.get("host") for _f, s, _m in M.all_methods(api)), "lib.acme.com")
        opts["service_yaml"] = {"type": "google.api.Service", "config_version": 3, "name": host, "apis": [{"name": a} for a in mix],
                                "http": {"rules": list(rules)}}
    seeds = draw(st.lists(st.integers(2, 4000), min_size=4, max_size=4, unique=True))
    return {"api": api, "options": opts, "hashseeds": [0, 1] + seeds}


def strategy(tier):
    return _case()


def first_difference(a, b):
    ra, rb = plugin_pb2.CodeGeneratorResponse.FromString(a), plugin_pb2.CodeGeneratorResponse.FromString(b)
    fa, fb = {f.name: f.content for f in ra.file}, {f.name: f.content for f in rb.file}
    if [f.name for f in ra.file] != [f.name for f in rb.file]:
        na, nb = [f.name for f in ra.file], [f.name for f in rb.file]
        i = next((i for i, (x, y) in enumerate(zip(na, nb)) if x != y), min(len(na), len(nb)))
        return f"file order/set differs at index {i}: {na[i:i+2]} vs {nb[i:i+2]}"
    for n in fa:
        if fa[n] != fb[n]:
            la, lb = fa[n].splitlines(), fb[n].splitlines()
            i = next((i for i, (x, y) in enumerate(zip(la, lb)) if x != y), min(len(la), len(lb)))
            return f"{n}:{i+1}: {la[i].strip()[:120]!r} vs {lb[i].strip()[:120]!r}"
    return "responses differ outside file contents"


def run_case(case, rec):
    api, options = case["api"], case["options"]
    tier_k = int(os.environ.get("VERIF_C10_K", "6" if os.environ.get("VERIF_TIER_ACTIVE") == "thorough" else "3"))
    seeds = case["hashseeds"][:tier_k]
    for fid in api.get("_excluded", []):
        rec.exclude(fid)
    with common.scratch("c10") as d:
        param = driver.write_aux(options, d)
        req = M.build_request(api, param)
        try:
            M.validate(list(req.proto_file))
        except Exception as e:
            raise HarnessError(f"unsound model: {e}")
        rb = req.SerializeToString()
        outs = {}

        def one(i_hs):
            i, hs = i_hs
            wd = os.path.join(d, f"wd{i}")
            os.makedirs(wd, exist_ok=True)
            return hs, driver.generate_cli(rb, wd, hashseed=hs, extra_env={"TZ": ["UTC", "Asia/Tokyo", "America/Los_Angeles"][i % 3],
                                                                             "LC_ALL": ["C", "C.UTF-8"][i % 2]})
        with ThreadPoolExecutor(max_workers=min(3, len(seeds))) as ex:
            for hs, (rc, data, err) in ex.map(one, enumerate(seeds)):
                outs[hs] = (rc, data, err)
    rcs = {hs: rc for hs, (rc, _, _) in outs.items()}
    if len(set(rcs.values())) > 1:
        raise Violation("exit-status-differs", f"CLI exit status depends on the hash seed: {rcs}", {"api": api, "options": options})
    if any(rc != 0 for rc in rcs.values()):
        err = next(iter(outs.values()))[2]
        rec.cls("generation-failed-consistently (judged by C01)")
        tail = [l for l in err.strip().splitlines() if l.strip()][-1:] or [""]
        # a crash that is identical in every process does not contradict determinism
        return
    digests = {hs: hashlib.sha256(data).hexdigest() for hs, (_, data, _) in outs.items()}
    if len(set(digests.values())) > 1:
        base = seeds[0]
        other = next(hs for hs in seeds if digests[hs] != digests[base])
        where = first_difference(outs[base][1], outs[other][1])
        raise Violation("response-differs", f"PYTHONHASHSEED={base} and {other} give different responses: {where}",
                        {"api": api, "options": options, "hashseeds": seeds})
    nres = sum(1 for f in api["files"] for _, m, _ in M.walk_messages(f) if m.get("resource"))
    nsvc = sum(len(f.get("services", [])) for f in api["files"])
    names = [m["name"] for f in api["files"] for m in f.get("messages", [])]
    twins = len({n.lower() for n in names}) < len(set(names))
    shorts = [m["resource"]["type"].split("/")[-1] for f in api["files"] for _, m, _ in M.walk_messages(f) if m.get("resource")]
    twin_res = len(set(shorts)) < len(shorts)
    codes = sorted({c for e in (options.get("retry_config") or {}).get("methodConfig", []) for c in e.get("retryPolicy", {}).get("retryableStatusCodes", [])})
    for k, v in (("resources", min(nres, 5)), ("services", nsvc), ("case-twins", twins), ("twin-resource-short-names", twin_res), ("retry-codes", min(len(codes), 5))):
        rec.cls(f"{k}:{v}")
    if nres >= 3 or nsvc >= 2 or twins or twin_res or len(codes) >= 3:
        rec.nontrivial([nres, nsvc, len(api["files"]), twins, twin_res, len(codes), options.get("transport"), options.get("snippets")])
    rec.sample({"files": [f["name"] for f in api["files"]], "params": options["params"], "hashseeds": seeds, "sha256": digests[seeds[0]][:16],
                "resources": nres, "services": nsvc}, cap=4)
