"""C19 — resource path helpers build and parse names as mutual inverses."""
import re
from hypothesis import strategies as st
from harness import common, strategies as S, model as M
from harness.engine import Violation, HarnessError
from harness.refmodels import respath as RP
from props import common_gen as G

ID = "C19"
LEVEL = "exploration"
SHRINK = {"quick": False, "thorough": True}
RULE = ("Two tiers. (fn) Hypothesis over a pattern grammar (1..6 variables; literal collection ids incl. camelCase/digits/underscores; "
        "{v}; multi-variable segments joined by '-', '_', '~', '.'; singleton suffixes; trailing {v=**}; the wildcard '*') x segment "
        "values over letters, digits, punctuation and non-ASCII letters that avoid the pattern's delimiters ('/' only inside the "
        "trailing ** variable) x non-matching strings (mutated built paths: renamed/dropped literal, emptied variable, literal "
        "separator replaced; arbitrary text), on the schema functions composed exactly as client.py.j2 composes them. (e2e) generated "
        "libraries: static helpers of sync and asyncio client classes for message resources, referenced file-level definitions and the "
        "five common resources. Oracle: own pattern parser (refmodels/respath.py): parse(build(segs)) == segs, build(parse(p)) == p, "
        "strings that fit the pattern under NO assignment of non-empty values parse to {}, '*' accepts anything, helper set and builder "
        "parameters follow a declared pattern. Non-trivial: >=2 variables or a non-slash separator or **; distinct = (#vars, "
        "separators, **, singleton, source of the resource).")
ASSUMPTIONS = ["'does not match' is judged in its weakest reading (no assignment of non-empty strings fits); strings that fit only by putting "
               "a '/' into a single-segment variable are counted, not judged",
               "segment values are single-line"]

COLL = ["shelves", "books", "projects", "locations", "myItems", "items2", "big_things", "a", "v1beta"]
SEPS = ["-", "_", "~", "."]
VALUE_ALPHABET = "abcXYZ019 +=&%:;,!@#$^()[]'éü中-_~."


def budget(tier):
    return {"shards": 16, "examples": 1200 if tier == "quick" else 40000, "wall": 170 if tier == "quick" else 1500}


@st.composite
def patterns(draw):
    if draw(st.integers(0, 30)) == 0:
        return "*"
    nvars = draw(st.integers(1, 6))
    names = ["project", "location", "shelf", "book", "item", "sub_item", "x", "resource2"][:nvars]
    segs, i = [], 0
    while i < nvars:
        if draw(st.integers(0, 2)) > 0 or not segs:
            segs.append(draw(st.sampled_from(COLL)))
        width = draw(st.sampled_from([1, 1, 1, 2, 3]))
        group = names[i:i + width]
        i += len(group)
        seg = "{%s}" % group[0]
        for g in group[1:]:
            seg += draw(st.sampled_from(SEPS)) + "{%s}" % g
        segs.append(seg)
    tail = draw(st.sampled_from(["", "", "", "/settings", "/config2"]))
    pat = "/".join(segs) + tail
    if not tail and draw(st.integers(0, 4)) == 0:
        last = names[nvars - 1]
        if pat.endswith("/{%s}" % last) or pat == "{%s}" % last:
            pat = pat[: -len("{%s}" % last)] + "{%s=**}" % last
    return pat


@st.composite
def _fn_case(draw):
    pat = draw(patterns())
    toks = RP.tokens(pat)
    delims = {"/"}
    for a, b, c in zip(toks, toks[1:], toks[2:]):
        if a[0] == "var" and b[0] == "lit" and c[0] == "var" and "/" not in b[1]:
            delims |= set(b[1])
    alpha = "".join(ch for ch in VALUE_ALPHABET if ch not in delims)
    segs = {}
    for t in toks:
        if t[0] == "var":
            v = draw(st.text(alphabet=alpha, min_size=1, max_size=6))
            if t[2] and draw(st.booleans()):
                v = v + "/" + draw(st.text(alphabet=alpha, min_size=1, max_size=4)) + ("/" + draw(st.text(alphabet=alpha, min_size=1, max_size=3)) if draw(st.booleans()) else "")
            segs[t[1]] = v
    mut = draw(st.sampled_from(["rename-literal", "drop-literal", "empty-var", "replace-separator", "arbitrary", "prefix-junk", "extra-trailing"]))
    return {"k": "fn", "pattern": pat, "segs": segs, "mutation": mut, "pick": draw(st.integers(0, 50)),
            "junk": draw(st.text(alphabet=VALUE_ALPHABET + "/", max_size=12))}


@st.composite
def _e2e_case(draw):
    prof = S.profile(max_methods=3, max_services=2, p_http=0.4, p_sig=0.1, p_routing=0.0, p_paged=0.1, p_lro=0.35, p_comment=0.02,
                     max_messages=5, max_fields=4, p_resource=0.8, rich_patterns=True, max_files=2, file_level_resources=True)
    api = draw(S.apis(prof))
    opts = {"params": ["autogen-snippets=False"], "snippets": False, "transport": "grpc"}
    return {"k": "e2e", "api": api, "options": opts, "inner": {"seed": draw(st.integers(0, 2 ** 31)), "n": 10}}


# coverage-guided stage (atheris/libFuzzer through Hypothesis' fuzz_one_input) over the schema functions (fn tier)
FUZZ_MODULES = ("gapic.schema.wrappers",)
_FUZZ_INFO = {}


def fuzz_strategy(worker=0):
    return _fn_case()


def extra_stage(tier, seed, rec):
    import sys
    from harness import fuzz_stage
    fuzz_stage.stage(sys.modules[__name__], tier, seed, rec, _FUZZ_INFO)


def evidence_extra(rec, tier):
    return {"coverage_guided_stage": dict(_FUZZ_INFO)}


def strategy(tier):
    # about one end-to-end library per 120 function-level cases (one_of would merge identical branches)
    return st.integers(0, 80).flatmap(lambda i: _e2e_case() if i == 0 else _fn_case())


def mutate(case, built):
    pat, mut, pick = case["pattern"], case["mutation"], case["pick"]
    toks = RP.tokens(pat)
    lits = [i for i, t in enumerate(toks) if t[0] == "lit" and t[1].strip("/")]
    if mut == "arbitrary":
        return case["junk"]
    if mut == "prefix-junk":
        return "zz" + built
    if mut == "extra-trailing":
        return built + "/extra"
    if mut == "empty-var":
        segs = dict(case["segs"])
        k = sorted(segs)[pick % len(segs)]
        segs[k] = ""
        return RP.build(pat, segs)
    if lits and mut in ("rename-literal", "drop-literal", "replace-separator"):
        i = lits[pick % len(lits)]
        new = list(toks)
        if mut == "rename-literal":
            new[i] = ("lit", toks[i][1].replace(toks[i][1].strip("/")[0], "Q", 1))
        elif mut == "drop-literal":
            new[i] = ("lit", "/" if toks[i][1].startswith("/") and toks[i][1].endswith("/") else "")
        else:
            t = toks[i][1]
            if "/" in t:
                return None
            new[i] = ("lit", "Q" * len(t))
        return "".join(t[1] if t[0] == "lit" else case["segs"][t[1]] for t in new)
    return None


def compose(pattern):
    """build/parse exactly as client.py.j2 composes the schema properties."""
    common.setup_gapic()
    from gapic.schema import wrappers
    from google.protobuf import descriptor_pb2 as dp
    from google.api import resource_pb2
    m = dp.DescriptorProto(name="Thing")
    m.options.Extensions[resource_pb2.resource].type = "lib.acme.com/Thing"
    m.options.Extensions[resource_pb2.resource].pattern.append(pattern)
    mt = wrappers.MessageType(message_pb=m, fields={}, nested_enums={}, nested_messages={})
    args, fmt, rx = list(mt.resource_path_args), mt.resource_path_formatted, mt.path_regex_str

    def build(**kw):
        return fmt.format(**{a: kw[a] for a in args})

    def parse(path):
        mm = re.match(rx, path)
        return mm.groupdict() if mm else {}
    return args, build, parse, rx


def run_case(case, rec):
    if case["k"] == "e2e":
        api, options = case["api"], case["options"]
        rec.cls("tier:e2e")
        with common.scratch("c19") as d:
            res, req = G.generate_checked(api, options, d, rec, ID)
            G.run_exerciser(ID, api, options, dict(case["inner"]), res, req, d, rec)
        return
    rec.cls("tier:fn")
    pat, segs = case["pattern"], case["segs"]
    args, build, parse, rx = compose(pat)
    toks = RP.tokens(pat)
    nvars = len(RP.variables(pat))
    seps = sorted({ch for a, b, c in zip(toks, toks[1:], toks[2:]) if a[0] == "var" and b[0] == "lit" and c[0] == "var" and "/" not in b[1] for ch in b[1]})
    multi = any(t[0] == "var" and t[2] for t in toks)
    if nvars >= 2 or seps or multi:
        rec.nontrivial([nvars, seps, multi, pat.endswith(("/settings", "/config2")), case["mutation"]])
    rec.sample({"pattern": pat, "segs": segs, "regex": rx}, cap=3)
    d = {"pattern": pat, "segs": segs, "regex": rx}
    if pat == "*":
        for s in (case["junk"], "a/b/c", ""):
            if not re.match(rx, s):
                raise Violation("wildcard", f"pattern '*': parse({s!r}) does not match anything", d)
        return
    if args != RP.variables(pat):
        raise Violation("builder-params", f"pattern {pat!r}: builder parameters {args}, variables in order {RP.variables(pat)}", d)
    built = build(**segs)
    want = RP.build(pat, segs)
    if built != want:
        raise Violation("build", f"pattern {pat!r}: built {built!r}, expected {want!r}", d)
    got = parse(built)
    if got != segs:
        raise Violation("parse-of-build", f"pattern {pat!r}: parse({built!r}) = {got}, built from {segs}", d)
    if build(**got) != built:
        raise Violation("build-of-parse", f"pattern {pat!r}: build(parse(p)) = {build(**got)!r} != p = {built!r}", d)
    s = mutate(case, built)
    if s is not None:
        if not RP.fits(pat, s):
            rec.cls("nonmatching:" + case["mutation"])
            r = parse(s)
            if r != {}:
                raise Violation("nonmatching-parsed", f"pattern {pat!r}: {s!r} fits the pattern under no assignment of non-empty values but parses to {r}", d)
        elif not RP.fits_strict(pat, s):
            rec.cls("fits only with '/' inside a single-segment variable (measured, not judged)")
