"""C05 — flattened keyword arguments are equivalent to an explicit request object."""
from hypothesis import strategies as st
from harness import common, strategies as S, model as M
from props import common_gen as G

ID = "C05"
LEVEL = "exploration"
RULE = ("Hypothesis over signature-heavy API models (1..3 method_signatures per method; top-level and dotted paths; scalar, "
        "enum, message, repeated, map, well-known-type and reserved-word leaves; requests local or from a dependency package) "
        "x inner scenarios (non-empty subset of the flattened parameters, a value per parameter incl. default/falsy values, "
        "sync|asyncio client). Oracle: inspect.signature order; decoded wire request of the keyword call == reference message "
        "built from the INPUT descriptor == decoded request of the request-object call; request + any flattened argument "
        "(falsy included) raises ValueError with zero calls observed. Non-trivial: subset containing a non-scalar, dotted or "
        "reserved-word parameter, or a dependency-package request; distinct = distinct (parameter kinds, subset size, client kind).")
ASSUMPTIONS = ["two signature paths with the same leaf name are excluded (one Python parameter name cannot stand for both)",
               "for requests of dependency (non proto-plus) packages the generator documents that only primitive fields are offered; only offered parameters are judged"]


def budget(tier):
    return {"shards": 16, "examples": 14 if tier == "quick" else 220, "wall": 170 if tier == "quick" else 1500}


@st.composite
def _case(draw):
    prof = S.profile(dep_only_file=0.2, dep_reserved_flattened_ok=True, services_in_subpackages=True, max_methods=5, max_services=2, p_http=0.3, p_sig=0.95, p_routing=0.05, p_paged=0.1, p_lro=0.08,
                     p_stream=0.12, p_dep_io=0.2, p_comment=0.03, max_messages=5, max_fields=6, p_reserved_field=0.15,
                     p_map=0.35, p_repeated=0.25, p_resource=0.1, max_files=2, p_keyword_rpc=0.03)
    api = draw(S.apis(prof))
    opts = {"params": ["autogen-snippets=False"], "snippets": False, "transport": "grpc"}
    root_ = M.common_package(api)
    sub_svc = any(f["package"] != root_ for f in api["files"] if not api.get("file_to_generate") or f["name"] in api["file_to_generate"])
    # (the ads template set's sub-package __init__ lists names without importing them: any proto sub-package is left to C01)
    if draw(st.integers(0, 3)) == 0 and not sub_svc:      # (ads + a service in a proto sub-package: finding F-subpackage-services)
        # the alternative (ads) template set has its own client template
        opts["params"] += ["python-gapic-templates=ads-templates", "old-naming"]
        opts["old_naming"] = True
        opts["ads"] = True
    return {"api": api, "options": opts, "inner": {"seed": draw(st.integers(0, 2 ** 31)), "n": 10}}


def strategy(tier):
    return _case()


def run_case(case, rec):
    api, options = case["api"], case["options"]
    for c in G.shape_classes(api):
        rec.cls("shape:" + c)
    with common.scratch("c05") as d:
        res, req = G.generate_checked(api, options, d, rec, ID)
        G.run_exerciser(ID, api, options, dict(case["inner"]), res, req, d, rec, prefer_unknown=True)
