"""C02 — generated message and enum classes are wire-compatible with input descriptors."""
from hypothesis import strategies as st
from harness import common, strategies as S
from props import common_gen as G

ID = "C02"
LEVEL = "translation_validation"
RULE = ("Hypothesis over type-heavy API models (15 scalar types, enums, repeated, proto3 optional, several oneofs, maps over "
        "all key types, nesting <= 4, self/mutual recursion, forward, cross-file, sub-package and dependency references, "
        "reserved-word field names). Per emitted program: every message/enum class is compared with the INPUT descriptor "
        "(field bijection by number: name, type, label, type name, oneof, proto3_optional, map key/value; enum name->number), "
        "then N random valuations of the input descriptor per message are round-tripped dyn->generated->dyn (bytes), rebuilt "
        "through python attributes, and through to_json -> json_format.Parse under the input descriptor with a key check. "
        "Non-trivial: message with >=1 non-scalar / repeated / oneof field; distinct = distinct multiset of "
        "(type,label,oneof?,presence) per message.")
ASSUMPTIONS = ["proto-plus / protobuf runtime at /venv versions are the declared runtime dependencies",
               "NaN excluded from equality-compared values; JSON direction uses values the proto3 JSON mapping can express",
               "enum values non-negative (proto-plus re-orders negative values: runtime dependency issue, DESIGN A15)"]


def budget(tier):
    return {"shards": 16, "examples": 14 if tier == "quick" else 250, "wall": 170 if tier == "quick" else 1500}


def evidence_extra(rec, tier):
    return {"programs": rec.evaluations, "disagreements_checked": rec.counters.get("messages_compared", 0) + rec.counters.get("inner_evaluations", 0)}


@st.composite
def _case(draw):
    prof = S.profile(dep_only_file=0.2, p_enum_alias=0.25, max_methods=2, max_services=1, p_http=0.2, p_sig=0.1, p_routing=0.0, p_paged=0.05, p_lro=0.05,
                     p_comment=0.05, max_messages=7, max_fields=8, max_depth=4, p_map=0.5, p_repeated=0.2,
                     p_optional=0.25, p_oneof=0.6, p_nested=0.55, p_recursive=0.2, p_dep_type=0.2, p_reserved_field=0.1,
                     p_sparse_numbers=0.3, p_resource=0.1)
    api = draw(S.apis(prof))
    opts = {"params": ["autogen-snippets=False"], "transport": "grpc", "snippets": False}
    return {"api": api, "options": opts, "inner": {"seed": draw(st.integers(0, 2 ** 31)), "n": 15}}


def strategy(tier):
    return _case()


def run_case(case, rec):
    api, options = case["api"], case["options"]
    inner = dict(case["inner"])
    for c in G.shape_classes(api):
        rec.cls("shape:" + c)
    with common.scratch("c02") as d:
        res, req = G.generate_checked(api, options, d, rec, ID)
        G.run_exerciser(ID, api, options, inner, res, req, d, rec)
