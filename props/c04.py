"""C04 — REST calls transcode each request exactly as its google.api.http rule prescribes."""
from hypothesis import strategies as st
from harness import common, strategies as S
from props import common_gen as G

ID = "C04"
LEVEL = "exploration"
RULE = ("Hypothesis over HTTP-heavy API models (get/put/post/delete/patch; URI grammar with literals, {f}, {f=lit/*}, {f=lit/*/sub/*}, "
        "{a.b=...}, trailing {f=lit/**}, :verb suffixes; body '*' | message field | absent; 0..2 additional bindings with other "
        "variables; required fields of every scalar kind in path/body/neither; methods without binding; client streaming) x "
        "rest-numeric-enums off/on x inner scenarios (request valuations matching a chosen binding with path values needing "
        "escaping, valuations matching no binding, reply valuations incl. unknown JSON fields, server-stream lengths 0..3). Oracle: "
        "own http.proto matcher (refmodels/transcoding.py): verb+path instantiate a declared binding with the request's values; "
        "body is exactly the named field / remainder; query + required defaults; path, query and body are disjoint and rebuild the "
        "request; lowerCamel keys; enum names vs numbers with $alt; reply decoded; NotImplementedError without binding; nothing sent "
        "when no binding matches; REST routing header equals the AIP-4222 reference. Non-trivial: binding with a path variable and "
        "(a body or a query); distinct = (verb, body kind, #vars, nested var, multi-segment, additional binding used, numeric enums, "
        "required fields).")
ASSUMPTIONS = ["path values avoid '/', '?', '#', '%' inside single-segment variables (URL syntax handled by the HTTP library, not the generator)",
               "fields that travel as query parameters are scalars, enums, repeated scalars, nested local messages and Timestamp/Duration/"
               "FieldMask (what google.api.http allows in query position); maps and Struct/Any appear only in bodies",
               "LRO methods over REST are exercised under C08",
               "unknown JSON fields are injected into replies except streamed replies of a type that is not proto-plus (those are parsed by "
               "api-core's ResponseIterator, whose strictness is the runtime library's)"]


def budget(tier):
    return {"shards": 16, "examples": 14 if tier == "quick" else 220, "wall": 170 if tier == "quick" else 1500}


@st.composite
def _case(draw):
    prof = S.profile(dep_only_file=0.2, services_in_subpackages=True, max_methods=5, max_services=2, p_http=0.92, p_sig=0.1, p_routing=0.12, p_paged=0.1, p_lro=0.04,
                     p_stream=0.15, p_dep_io=0.0, p_comment=0.03, max_messages=4, max_fields=6, p_reserved_field=0.08,
                     p_map=0.0, p_resource=0.1, max_files=2, p_additional=0.2, required_fields=True, p_required=0.35, p_path_required=0.6,
                     p_dep_type=0.12, dep_messages=[".google.protobuf.Timestamp", ".google.protobuf.Duration", ".google.protobuf.FieldMask"],
                     routing_reserved_ok=True, repeated_messages=False)
    api = draw(S.apis(prof))
    numeric = draw(st.booleans())
    t = draw(st.sampled_from(["rest", "grpc+rest"]))
    opts = {"params": ["autogen-snippets=False", f"transport={t}"] + (["rest-numeric-enums"] if numeric else []),
            "snippets": False, "transport": t, "numeric_enums": numeric}
    return {"api": api, "options": opts, "inner": {"seed": draw(st.integers(0, 2 ** 31)), "n": 10}}


def strategy(tier):
    return _case()


def run_case(case, rec):
    api, options = case["api"], case["options"]
    for c in G.shape_classes(api):
        rec.cls("shape:" + c)
    rec.cls("numeric-enums:" + str(bool(options.get("numeric_enums"))))
    with common.scratch("c04") as d:
        res, req = G.generate_checked(api, options, d, rec, ID)
        G.run_exerciser(ID, api, options, dict(case["inner"]), res, req, d, rec)
