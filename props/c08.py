"""C08 — long-running methods return futures typed by google.longrunning.operation_info."""
from hypothesis import strategies as st
from harness import common, strategies as S, model as M
from harness.engine import Violation
from props import common_gen as G

ID = "C08"
LEVEL = "fault_enumeration"
RULE = ("Hypothesis over LRO-heavy API models (Operation-returning methods whose operation_info response/metadata names are relative "
        "or fully qualified, defined in the service's file, another target file (imported or not), a sub-package file, or Empty; "
        "with one name missing; or without annotation) x inner operation histories (not-done^k, k in 0..4, then done with a packed "
        "response or an error status from 7 codes; payload and metadata valuations; sync|asyncio|REST|async REST - REST with the Operations "
        "GetOperation HTTP rule taken from the service YAML (3 shapes, alone or as primary + additional bindings in either order) or api-core's default). The harness owns the clock "
        "(sleep returns at once). Oracle: missing name => generation raises; annotated => api-core operation future, exactly k+1 "
        "GetOperation calls for the issued name on the same loopback channel (REST: k+1 GETs on the path the rule expands to), result()/metadata are instances of the classes the "
        "names resolve to relative to the method's package and equal the packed payloads, error history raises; un-annotated => raw "
        "Operation, never polled. Non-trivial: type outside the service's file, or k >= 1; distinct = (resolution case of response, "
        "of metadata, k, outcome, client).")
ASSUMPTIONS = ["LRO over REST: operation names are drawn to match the GetOperation rule in force (a name the rule cannot transcode is api-core's business)",
               "nested messages as operation_info types are not generated"]


def budget(tier):
    return {"shards": 16, "examples": 14 if tier == "quick" else 200, "wall": 170 if tier == "quick" else 1500}


@st.composite
def _case(draw):
    prof = S.profile(dep_only_file=0.2, services_in_subpackages=True, max_methods=4, max_services=2, p_http=0.65, p_sig=0.15, p_routing=0.05, p_paged=0.05, p_lro=0.7, p_stream=0.05,
                     p_dep_io=0.05, p_comment=0.03, max_messages=5, max_fields=4, max_files=3, p_subpackage=0.35, lro_variants=True, p_colliding_file_name=0.35,
                     p_resource=0.1)
    api = draw(S.apis(prof))
    t = draw(st.sampled_from(["grpc", "grpc+rest", "grpc+rest"]))
    opts = {"params": ["autogen-snippets=False", f"transport={t}"], "snippets": False, "transport": t}
    inner = {"seed": draw(st.integers(0, 2 ** 31)), "n": 8}
    if "rest" in t:
        # LRO over REST polls through the Operations HTTP rules of the service YAML (api-core's default rule otherwise)
        shapes = ["/v1/{name=operations/*}", "/v1beta/{name=projects/*/operations/*}", "/v2/{name=projects/*/locations/*/operations/*}"]
        rules = draw(st.sampled_from([[], [], shapes[:1], shapes[1:2], shapes[2:], shapes, shapes[::-1], shapes[1:]]))
        inner["lro_get_rules"] = rules          # primary binding first, then additional_bindings
        if rules:
            host = next((s.get("host") for _f, s, _m in M.all_methods(api)), "lib.acme.com")
            get = {"selector": "google.longrunning.Operations.GetOperation", "get": rules[0]}
            if rules[1:]:
                get["additional_bindings"] = [{"get": r} for r in rules[1:]]
            opts["service_yaml"] = {"type": "google.api.Service", "config_version": 3, "name": host, "http": {"rules": [
                get, {"selector": "google.longrunning.Operations.CancelOperation", "post": rules[0].replace("}", "}:cancel"), "body": "*"}]}}
    if "rest" in t and draw(st.integers(0, 2)) == 0:
        # experimental asynchronous REST transport (its operations client is a different template)
        y = opts.setdefault("service_yaml", {"type": "google.api.Service", "config_version": 3,
                                             "name": next((s.get("host") for _f, s, _m in M.all_methods(api)), "lib.acme.com")})
        y["publishing"] = {"library_settings": [{"version": M.common_package(api), "python_settings": {"experimental_features": {"rest_async_io_enabled": True}}}]}
        opts["async_rest"] = True
    return {"api": api, "options": opts, "inner": inner}


def strategy(tier):
    return _case()


def run_case(case, rec):
    api, options = case["api"], case["options"]
    for c in G.shape_classes(api):
        rec.cls("shape:" + c)
    bad = [(s["name"], m["name"]) for _f, s, m in M.all_methods(api)
           if m["output"] == ".google.longrunning.Operation" and m.get("lro") is not None and (not m["lro"].get("response") or not m["lro"].get("metadata"))]
    with common.scratch("c08") as d:
        if bad:
            rec.cls("missing-type-name")
            rec.nontrivial(["missing", len(bad)])
            try:
                res, req = G.generate_checked(api, options, d, rec, ID)
            except Violation as v:
                if v.kind.startswith("generation-raised"):
                    return
                raise
            raise Violation("missing-lro-type-accepted", f"operation_info of {bad} lacks a response or metadata type name but generation succeeded",
                            {"api": api, "options": options})
        res, req = G.generate_checked(api, options, d, rec, ID)
        G.run_exerciser(ID, api, options, dict(case["inner"]), res, req, d, rec)
