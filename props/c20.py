"""C20 — comments reach docstrings intact; whitespace clean-up never changes code meaning.

Sub-checks (case["k"]):
  wrap   gapic.utils.lines.wrap(text, width, offset=, indent=): word sequence preserved, width bound
  rst    gapic.utils.rst.rst on the plain branch: word sequence preserved; both branches: never ends with '"'
  doc    docstring embedding: the literal forms the templates use, instantiated with rst(text): exactly
         one string constant and nothing else
  fix    gapic.generator.formatter.fix_whitespace on grammar layouts and perturbed real emitted files:
         non-blank lines unchanged (rstrip), idempotent, exactly one final newline, AST unchanged up to
         whitespace inside string constants
  e2e    API whose comments come from the text grammar (plain branch, quotes, tabs) on every element kind -> generate ->
         every .py compiles -> import -> the words of each comment appear in order in the docstring of its class / method
"""
import ast, json, os, re
from hypothesis import strategies as st

from harness import common, textgen
from harness.engine import Violation, HarnessError

ID = "C20"
LEVEL = "exploration"
SHRINK = {"quick": False, "thorough": True}
RULE = ("Hypothesis over a grammar of comment texts (words, punctuation, quotes, backslashes, long tokens; "
        "separators: spaces, runs, newlines, blank lines, tabs, colons, list markers) x width in [20,120], "
        "indent < width, offset < width; over docstring embedding forms scanned from the templates; over a "
        "grammar of Python source layouts and perturbed emitted files. Non-trivial: wrap/rst output has >=2 "
        "lines; doc text has a quote or backslash; fix_whitespace changed the source. Distinct = distinct "
        "(sub-check, feature vector: separators used, quote/backslash/tab/long-token presence, width bucket, "
        "offset/indent bucket | layout constructs present).")
ASSUMPTIONS = [
    "pandoc is not installed: pypandoc.convert_text is an identity stub; word preservation is judged on the plain branch only",
    "comment texts contain no control characters other than \\n and \\t",
    "wrap preconditions: 0 <= offset < width, 0 <= indent < width (textwrap's own), and offset+longest… no further restriction",
]


def budget(tier):
    if tier == "quick":
        return {"shards": 16, "examples": 1100, "wall": 150}
    return {"shards": 16, "examples": 40000, "wall": 1500}


# ---------------------------------------------------------------------------
# strategies

@st.composite
def _wrap_case(draw):
    text = draw(textgen.comment_text(markup=draw(st.booleans())))
    width = draw(st.integers(20, 120))
    indent = draw(st.integers(0, min(24, width - 1)))
    offset = draw(st.one_of(st.none(), st.integers(0, width - 1)))
    return {"k": "wrap", "text": text, "width": width, "indent": indent, "offset": offset}


@st.composite
def _rst_case(draw):
    text = draw(textgen.comment_text(markup=draw(st.booleans())))
    width = draw(st.sampled_from([72, 72, 80, 60, 100]))
    indent = draw(st.sampled_from([0, 4, 8, 12, 16]))
    nl = draw(st.sampled_from([None, None, True, False]))
    return {"k": "rst", "text": text, "width": width, "indent": indent, "nl": nl}


@st.composite
def _doc_case(draw):
    text = draw(textgen.comment_text(markup=draw(st.integers(0, 3)) == 0, max_words=25))
    return {"k": "doc", "text": text, "form": draw(st.integers(0, 50))}


@st.composite
def _fix_case(draw):
    if draw(st.integers(0, 3)) == 0:
        return {"k": "fix", "real": draw(st.integers(0, 10 ** 6)), "perturb": draw(st.lists(
            st.tuples(st.integers(0, 10 ** 6), st.sampled_from(["blank", "blank", "blank2", "blank3", "blank5", "trail", "trailtab", "blankws"])),
            min_size=1, max_size=12))}
    return {"k": "fix", "src": draw(textgen.source_layout())}


@st.composite
def _e2e_case(draw):
    from harness import strategies as S
    prof = S.profile(max_methods=3, max_services=1, max_messages=3, max_fields=4, max_files=1, p_comment=0.85, rich_comments=True,
                     comment_quotes=True, comment_backslash=True, p_http=0.6, p_sig=0.2, p_routing=0.0, p_paged=0.1, p_lro=0.1, p_stream=0.1)
    api = draw(S.apis(prof))
    t = draw(st.sampled_from(["grpc", "grpc+rest", "grpc+rest"]))
    return {"k": "e2e", "api": api, "options": {"params": ["autogen-snippets=False", f"transport={t}"], "transport": t, "snippets": False}}


# coverage-guided stage (atheris/libFuzzer through Hypothesis' fuzz_one_input): the cheap sub-cases only
FUZZ_MODULES = ("gapic.utils.lines", "gapic.utils.rst", "gapic.generator.formatter")


def fuzz_strategy(worker=0):
    # one sub-case kind per worker (coverage feedback otherwise settles on the cheapest kind)
    return [_wrap_case(), _rst_case(), _fix_case(), _doc_case()][worker % 4]


def extra_stage(tier, seed, rec):
    import sys
    from harness import fuzz_stage
    fuzz_stage.stage(sys.modules[__name__], tier, seed, rec, _FUZZ_INFO)


_FUZZ_INFO = {}


def evidence_extra(rec, tier):
    return {"coverage_guided_stage": dict(_FUZZ_INFO)}


def strategy(tier):
    # about one end-to-end library (comments on every element kind -> generate -> import -> docstrings) per 400 cheap cases
    cheap = st.one_of(_wrap_case(), _wrap_case(), _rst_case(), _doc_case(), _fix_case(), _fix_case())
    return st.integers(0, 400).flatmap(lambda i: _e2e_case() if i == 0 else cheap)


# ---------------------------------------------------------------------------
# oracles

def _features(text):
    f = []
    for name, pat in (("tab", "\t"), ("dq", '"'), ("tq", '"""'), ("bs", "\\"), ("blank", "\n\n"),
                      ("runs", "  "), ("colon", ":\n"), ("dash", "\n- "), ("plus", "\n+ "), ("num", "\n1. "),
                      ("nlsp", "\n ")):
        if pat in text:
            f.append(name)
    if any(len(w) > 24 for w in text.split()):
        f.append("long")
    if re.search(r"[|*`_\[\]]", text):
        f.append("markup")
    return f


def _check_words(kind, text, out, detail):
    if out.split() != text.split():
        a, b = text.split(), out.split()
        i = 0
        while i < min(len(a), len(b)) and a[i] == b[i]:
            i += 1
        raise Violation(f"{kind}-words", f"word sequence changed at word {i}: in={a[i:i+3]} out={b[i:i+3]}",
                        dict(detail, out=out))


def _check_width(kind, out, width, first_width, indent, detail):
    for n, line in enumerate(out.split("\n")):
        limit = first_width if n == 0 else width
        if len(line) > limit and len(line.split()) > 1:
            raise Violation(f"{kind}-width", f"line {n} has {len(line)} > {limit} columns and more than one word: {line!r}",
                            dict(detail, out=out))


_forms = None


def docstring_forms():
    """Scan the shipped templates for the literal forms in which `|rst(...)` output is embedded
    directly after an opening triple quote; return [(prefix, rst kwargs, closing)]."""
    global _forms
    if _forms is not None:
        return _forms
    forms = set()
    pat = re.compile(r'(r?""")\{\{-?\s*[\w.]+\|rst\(([^)]*)\)(\|trim)?\s*-?\}\}("""|)')
    for root in ("templates", "ads-templates"):
        for dp, _, fns in os.walk(os.path.join(common.REPO, "gapic", root)):
            for fn in fns:
                if fn.endswith(".j2"):
                    with open(os.path.join(dp, fn), encoding="utf-8") as fh:
                        for m in pat.finditer(fh.read()):
                            forms.add((m.group(1), m.group(2).replace(" ", ""), bool(m.group(3)), m.group(4)))
    forms = sorted(forms)
    if not forms:
        raise HarnessError("no docstring embedding forms found in templates")
    _forms = forms
    return forms


def _kwargs(s):
    kw = {}
    for part in filter(None, s.split(",")):
        k, v = part.split("=")
        kw[k] = ast.literal_eval(v)
    return kw


def _norm_ast(src):
    tree = ast.parse(src)
    for node in ast.walk(tree):
        if isinstance(node, ast.Constant) and isinstance(node.value, str):
            node.value = re.sub(r"\s+", "", node.value)
    return ast.dump(tree)


_real = None


def _real_sources():
    """A pool of real emitted .py files (generated once per worker from a small API)."""
    global _real
    if _real is None:
        from harness import driver, sampleapis
        srcs = []
        for api, options in sampleapis.small_set():
            with common.scratch("c20") as d:
                res, _ = driver.generate(api, options, d)
                if res.error is not None:
                    raise HarnessError(f"sample API failed to generate: {res.tb}")
                for name, content in sorted(res.files.items()):
                    if name.endswith(".py") and content.strip():
                        srcs.append((name, content))
        _real = srcs
    return _real


def _perturb(src, ops):
    lines = src.split("\n")
    for pos, op in ops:
        i = pos % len(lines)
        if op.startswith("blank"):
            if i > 0 and lines[i - 1].rstrip().endswith("\\"):
                continue
            n = {"blank": 1, "blank2": 2, "blank3": 3, "blank5": 5, "blankws": 2}[op]
            fill = "    " if op == "blankws" else ""
            lines[i:i] = [fill] * n
        elif op == "trail":
            lines[i] = lines[i] + "   "
        elif op == "trailtab":
            lines[i] = lines[i] + " \t"
    return "\n".join(lines)


def run_case(case, rec):
    common.setup_gapic()
    k = case["k"]
    rec.cls("sub:" + k)
    if k == "e2e":
        from props import common_gen as G
        from props.c01 import static_checks
        api, options = case["api"], case["options"]
        with common.scratch("c20") as d:
            res, req = G.generate_checked(api, options, d, rec, ID)
            static_checks(res, api, options)
            G.run_exerciser(ID, api, options, {}, res, req, d, rec)
        rec.nontrivial(["e2e", G.shape_classes(api)])
        return
    if k == "wrap":
        from gapic.utils.lines import wrap
        text, width, indent, offset = case["text"], case["width"], case["indent"], case["offset"]
        out = wrap(text, width, offset=offset, indent=indent)
        eff = indent if offset is None else offset
        feats = _features(text)
        if "\n" in out:
            rec.nontrivial(["wrap", feats, width // 20, eff // 8, indent // 8])
        rec.sample({"k": k, "text": text[:200], "width": width, "indent": indent, "offset": offset, "out": out[:200]}, cap=2)
        for f in feats:
            rec.cls("text:" + f)
        _check_words("wrap", text, out, case)
        _check_width("wrap", out, width, width - eff, indent, case)
    elif k == "rst":
        from gapic.utils.rst import rst
        text = case["text"]
        out = rst(text, width=case["width"], indent=case["indent"], nl=case["nl"])
        plain = not re.search(r"[|*`_[\]]", text)
        rec.cls("rst:plain" if plain else "rst:pandoc-stub")
        if "\n" in out:
            rec.nontrivial(["rst", _features(text), case["width"], case["indent"], case["nl"]])
        if out.endswith('"'):
            raise Violation("rst-trailing-quote", f"rst() result ends with a double quote: {out[-20:]!r}", case)
        if out.endswith("\\"):
            raise Violation("rst-trailing-backslash", f"rst() result ends with a backslash (it would escape the closing quotes of the docstring): {out[-20:]!r}", case)
        if plain:
            _check_words("rst", _unescape_quotes(text), _unescape_quotes(_strip_guard(text, out)), case)
            body = out
            if body.endswith("\n" + " " * case["indent"]):
                body = body[: -(1 + case["indent"])]
            _check_width("rst", _strip_guard(text, body), case["width"] - 0, case["width"] - case["indent"] - (case["indent"] + 3), case["indent"], case)
    elif k == "doc":
        from gapic.utils.rst import rst
        forms = docstring_forms()
        prefix, kws, trim, closing = forms[case["form"] % len(forms)]
        text = case["text"]
        body = rst(text, **_kwargs(kws))
        if trim:
            body = body.strip()
        # the closing quotes either follow directly or come on a later template line
        lit = "x = " + prefix + body + (closing or '\n    more template text.\n    """') + "\ny = 1\n"
        feats = _features(text)
        if '"' in text or "\\" in text:
            rec.nontrivial(["doc", prefix, kws, feats])
        rec.sample({"k": k, "form": [prefix, kws, closing], "text": text[:120]}, cap=2)
        intended_end = len("x = " + prefix + body) + (len(closing) if closing else len('\n    more template text.\n    """'))
        tok_end = _string_token_end(lit)
        if tok_end is None or tok_end > intended_end:
            rec.cls("doc:late-or-unterminated (measured, judged by C01)")
        elif tok_end < intended_end:
            raise Violation("doc-literal-early", f"docstring form {prefix}…{closing!r} with rst({kws}): the literal ends at offset "
                            f"{tok_end}, before the template's closing quotes at {intended_end}",
                            dict(case, literal=lit[:600]))
        else:
            rec.cls("doc:ok")
    elif k == "fix":
        from gapic.generator.formatter import fix_whitespace
        if "src" in case:
            src = case["src"]
            rec.cls("fix:grammar")
        else:
            pool = _real_sources()
            name, base = pool[case["real"] % len(pool)]
            src = _perturb(base, case["perturb"])
            rec.cls("fix:real-perturbed")
        out = fix_whitespace(src)
        if out != src:
            cons = [c for c in ("class ", "def ", "@", '"""', "[", "#", "\t") if c in src]
            rec.nontrivial(["fix", cons, len(src.split("\n")) // 10, src.count("\n\n\n") > 0, src.endswith("\n")])
        rec.sample({"k": k, "src": src[:300]}, cap=2)
        d = {"src": src[:3000], "out": out[:3000]}
        if [l.rstrip() for l in src.splitlines() if l.strip()] != [l.rstrip() for l in out.splitlines() if l.strip()]:
            raise Violation("fix-nonblank-lines", "a non-blank line was altered beyond trailing whitespace", d)
        if fix_whitespace(out) != out:
            raise Violation("fix-idempotent", "fix_whitespace(fix_whitespace(s)) != fix_whitespace(s)", d)
        if not out.endswith("\n") or out.endswith("\n\n") or (len(out) > 1 and out[-2] in " \t"):
            raise Violation("fix-final-newline", f"result does not end with exactly one newline: {out[-10:]!r}", d)
        if any(l != l.rstrip(" ") for l in out.split("\n")):
            # only judged outside string literals: compare via AST below; trailing blanks inside strings are allowed
            pass
        try:
            a = _norm_ast(src)
        except SyntaxError:
            rec.cls("fix:src-not-parsable")
            return
        try:
            b = _norm_ast(out)
        except SyntaxError as e:
            raise Violation("fix-ast", f"source parsed but result does not: {e}", d)
        if a != b:
            raise Violation("fix-ast", "AST changed beyond whitespace inside string constants", d)
    else:
        raise HarnessError(f"unknown case kind {k}")


def _string_token_end(src):
    """Offset (in characters) just past the first STRING token of src, None if the tokenizer
    cannot find its end. tokenize does not validate escapes, so this isolates *where the literal
    terminates* from whether its escapes are valid (the latter is C01's business)."""
    import io, tokenize
    lines = src.splitlines(keepends=True)
    try:
        for tok in tokenize.generate_tokens(io.StringIO(src).readline):
            if tok.type == tokenize.STRING or tok.type == getattr(tokenize, "FSTRING_START", -1):
                row, col = tok.end
                return sum(len(l) for l in lines[: row - 1]) + col
    except (tokenize.TokenError, SyntaxError, IndentationError):
        return None
    return None


def _strip_guard(text, out):
    """rst() appends '.' when the converted text ends with a double quote; undo that single
    character for the word comparison (documented behaviour of rst, not a word change)."""
    if out.endswith('".') and text.rstrip().endswith('"'):
        return out[:-1]
    if out.endswith("\\.") and text.rstrip().endswith("\\"):       # the same guard for a trailing backslash
        return out[:-1]
    return out


def _unescape_quotes(s):
    """Backslash-escaping of double quotes (needed to embed text in a docstring) is not a word change."""
    return s.replace('\\"', '"')
