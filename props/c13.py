"""C13 — the unit-test suite emitted with a library passes against that library."""
import os, re, subprocess, xml.etree.ElementTree as ET
from hypothesis import strategies as st
from harness import common, driver, conventional as CV
from harness.engine import Violation, HarnessError
from props import common_gen as G

ID = "C13"
LEVEL = "exploration"
RULE = ("Hypothesis over the 'conventional' profile of DESIGN section 8 (1..2 resources, any subset of Get/List/Create/Update/Delete + "
        "custom methods, flattened signatures covering the HTTP path fields, all 15 scalar types, enums, nested and well-known messages, "
        "maps, repeated, optional, oneofs, reserved-word fields, required fields, paging incl. map pages, LRO, server/client/bidi "
        "streaming, api_version) x option sets that change the emitted surface (transport grpc|rest|grpc+rest, numeric enums, service "
        "YAML with each subset of the three mixin APIs with whole-API rule sets, add-iam-methods, retry config). Oracle: `pytest "
        "tests/unit` on the emitted tree in a fresh process exits 0 and its junit report has >= 1 test, zero failures, zero errors. "
        "Non-trivial: >= 3 of {get, list, create, update, delete, custom} on a resource; distinct = (option set, shape classes).")
ASSUMPTIONS = ["conventional profile and exclusions E0/E1: DESIGN.md section 8", "async REST only together with gRPC (alone: finding F-async-rest-without-grpc); ads templates with transport=grpc and old-naming"]
TESTS_TIMEOUT = 900


def budget(tier):
    return {"shards": 16, "examples": 16 if tier == "quick" else 200, "wall": 175 if tier == "quick" else 1600}


@st.composite
def _case(draw):
    api = draw(CV.conventional_api())
    t = draw(st.sampled_from(["grpc+rest", "grpc+rest", "grpc", "rest"]))
    params = [f"transport={t}", "autogen-snippets=False"]
    opts = {"params": params, "transport": t, "snippets": False}
    if draw(st.booleans()):
        params.append("rest-numeric-enums")
        opts["numeric_enums"] = True
    mix = [a for a in CV.MIXIN_RULES if draw(st.integers(0, 3)) == 0]
    add_iam = not mix and draw(st.integers(0, 5)) == 0
    if add_iam:
        params.append("add-iam-methods")
    if mix:
        opts["service_yaml"] = {"type": "google.api.Service", "config_version": 3, "name": "lib.acme.com",
                                "apis": [{"name": a} for a in mix], "http": {"rules": [r for a in mix for r in CV.MIXIN_RULES[a]]}}
    if t == "grpc" and draw(st.integers(0, 2)) == 0:
        # the alternative (ads) template set with its legacy naming
        params += ["python-gapic-templates=ads-templates", "old-naming"]
        opts["old_naming"] = True
        opts["ads"] = True
        if "rest-numeric-enums" in params:
            params.remove("rest-numeric-enums")
            opts.pop("numeric_enums", None)
    if t == "grpc+rest" and draw(st.integers(0, 3)) == 0:
        # experimental asynchronous REST transport (with gRPC present; alone it is finding F-async-rest-without-grpc)
        y = opts.setdefault("service_yaml", {"type": "google.api.Service", "config_version": 3, "name": "lib.acme.com"})
        y["publishing"] = {"library_settings": [{"version": "acme.lib.v1", "python_settings": {"experimental_features": {"rest_async_io_enabled": True}}}]}
        opts["async_rest"] = True
    if draw(st.integers(0, 3)) == 0:
        from harness import strategies as S
        opts["retry_config"] = draw(S.retry_configs(api))
    return {"api": api, "options": opts, "mixins": mix}


def strategy(tier):
    return _case()


def run_case(case, rec):
    api, options = case["api"], case["options"]
    kinds = sorted({re.match(r"[A-Z][a-z]+", m["name"]).group(0) for f in api["files"] for s in f["services"] for m in s["methods"]})
    classes = G.shape_classes(api)
    rec.cls("transport:" + options["transport"] + ("+async-rest" if options.get("async_rest") else "") + ("+ads" if options.get("ads") else ""))
    for a in case["mixins"]:
        rec.cls("mixin:" + a.rsplit(".", 1)[-1])
    with common.scratch("c13") as d:
        res, req = G.generate_checked(api, options, d, rec, ID)
        out = os.path.join(d, "out")
        os.makedirs(out)
        driver.materialise(res.response, out)
        xml = os.path.join(d, "junit.xml")
        env = common.child_env({"PYTHONPATH": out})
        try:
            r = subprocess.run([common.PY, "-m", "pytest", "tests/unit", "-q", "-p", "no:cacheprovider", "-x", "--no-header", f"--junitxml={xml}",
                                "-W", "ignore"], cwd=out, env=env, capture_output=True, text=True, timeout=TESTS_TIMEOUT)
        except subprocess.TimeoutExpired:
            raise HarnessError("emitted test suite did not finish in time")
        tests = failures = errors = 0
        first = ""
        if os.path.exists(xml):
            root = ET.parse(xml).getroot()
            for ts in root.iter("testsuite"):
                tests += int(ts.get("tests", 0)); failures += int(ts.get("failures", 0)); errors += int(ts.get("errors", 0))
            for tc in root.iter("testcase"):
                for ch in tc:
                    if ch.tag in ("failure", "error") and not first:
                        first = f"{tc.get('name')}: {(ch.get('message') or '')[:300]}"
        rec.count("emitted_tests_run", tests)
        if r.returncode != 0 or failures or errors or tests == 0:
            tail = "\n".join(l for l in r.stdout.splitlines() if l.startswith(("FAILED", "ERROR", "E  ")))[:1200]
            name = (first.split(":")[0] if first else "collection")
            kind = re.sub(r"\[.*$", "", name)
            kind = re.sub(r"(book|shelf|books|shelves)", "X", kind)
            raise Violation("emitted-test-failed:" + kind[:60], f"pytest exit {r.returncode}, {tests} tests, {failures} failures, {errors} errors; first: {first}",
                            {"api": api, "options": options, "tail": tail})
    if len(kinds) >= 3:
        rec.nontrivial([options["transport"], options.get("numeric_enums"), sorted(case["mixins"]), bool(options.get("retry_config")), classes])
    rec.sample({"methods": kinds, "params": options["params"], "mixins": case["mixins"], "emitted_tests": tests}, cap=4)
