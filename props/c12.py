"""C12 — reserved-word and colliding names are disambiguated without altering the wire (finite table, enumerated)."""
import keyword
from harness import common, model as M
from harness.strategies import RESERVED
from props import common_gen as G

ID = "C12"
LEVEL = "exploration"
POSITIONS = ["field", "nested-field", "flat-param", "flat-dotted-leaf", "flat-dotted-nonleaf", "http-var", "http-var-dotted-leaf",
             "http-var-dotted-nonleaf", "http-body", "routing-implicit-dotted", "routing-explicit", "rpc-name", "file-name"]
COLLISIONS = ["status", "empty", "operations", "field_mask", "timestamp", "policy", "duration", "struct"]
RULE = ("Exhaustive enumeration (thorough) / stratified rotation (quick) of the table words x positions: words = the generator's reserved "
        "list as of the pinned commit (frozen copy) + keyword.kwlist + soft keywords; positions = " + ", ".join(POSITIONS) + "; plus module-name "
        "collisions (a target proto file named like an imported dependency module: " + ", ".join(COLLISIONS) + "). One minimal API per pair. "
        "Oracle: the library imports; the entity is reachable as <word>_ (attribute, keyword parameter, client method, types module); on the "
        "wire (loopback gRPC + HTTP, decoded with the input descriptors) proto field name, JSON key, RPC path, HTTP path and routing key are "
        "the original word. Every case is non-trivial; distinct = distinct (word, position).")
ASSUMPTIONS = ["identifiers follow the protobuf style guide's character set: the reserved entry `__peg_parser__` (leading underscores) is not used as a field name",
               "rpc-name uses the UpperCamel form of words whose lower-case form is a Python keyword, plus CreateChannel/GrpcChannel/OperationsClient",
               "file-name uses keywords and the client control parameters metadata/retry/timeout/request"]
P = ".acme.lib.v1."


def words():
    soft = list(getattr(keyword, "softkwlist", []))
    out = []
    for w in list(RESERVED) + keyword.kwlist + soft:
        if w not in out:
            out.append(w)
    return out


def table():
    cases = []
    for w in words():
        if w.startswith("_"):
            continue          # `__peg_parser__`: leading-underscore identifiers are outside the protobuf style guide's field/RPC names
        for pos in POSITIONS:
            if pos == "rpc-name":
                if not keyword.iskeyword(w.lower()) or not w.isalpha():
                    continue
            if pos == "file-name" and not (keyword.iskeyword(w) and w.islower()):
                continue
            cases.append({"word": w, "position": pos})
    for w in ("metadata", "retry", "timeout", "request"):
        cases.append({"word": w, "position": "file-name"})
    for w in ("CreateChannel", "GrpcChannel", "OperationsClient"):
        cases.append({"word": w, "position": "rpc-name-transport"})
    for w in COLLISIONS:
        cases.append({"word": w, "position": "module-collision"})
    return cases


def budget(tier):
    return {"shards": 16, "examples": 0}


def EXHAUSTIVE(tier):
    return tier == "thorough"


def enumerate_cases(tier, seed):
    t = table()
    if tier == "thorough":
        return t
    # stratified rotation: every word once (position rotated by seed), every position >= 12 times
    out, ws = [], words()
    byword = {}
    for c in t:
        byword.setdefault(c["word"], []).append(c)
    for i, w in enumerate(ws):
        cs = byword.get(w, [])
        if cs:
            out.append(cs[(i + seed) % len(cs)])
    for pi, pos in enumerate(POSITIONS + ["rpc-name-transport", "module-collision"]):
        cs = [c for c in t if c["position"] == pos]
        for j in range(min(5, len(cs))):
            c = cs[(seed * 7 + j * 11 + pi) % len(cs)]
            if c not in out:
                out.append(c)
    return out


def build_api(word, pos):
    inner = {"name": "Inner", "fields": [{"name": "plain", "number": 1, "type": "string"}]}
    req = {"name": "FrobRequest", "fields": [{"name": "plain", "number": 1, "type": "string"}, {"name": "inner", "number": 2, "type": "message", "type_name": P + "Inner"}]}
    meth = {"name": "Frob", "input": P + "FrobRequest", "output": P + "Inner"}
    fname = "acme/lib/v1/lib.proto"
    extra_files = []
    if pos == "field":
        req["fields"].append({"name": word, "number": 3, "type": "string"})
    elif pos == "nested-field":
        inner["fields"].append({"name": word, "number": 2, "type": "int32"})
    elif pos == "flat-param":
        req["fields"].append({"name": word, "number": 3, "type": "string"})
        meth["signatures"] = [f"plain,{word}"]
    elif pos == "flat-dotted-leaf":
        inner["fields"].append({"name": word, "number": 2, "type": "string"})
        meth["signatures"] = [f"inner.{word}"]
    elif pos == "flat-dotted-nonleaf":
        req["fields"].append({"name": word, "number": 3, "type": "message", "type_name": P + "Inner"})
        meth["signatures"] = [f"{word}.plain"]
    elif pos == "http-var":
        req["fields"].append({"name": word, "number": 3, "type": "string"})
        meth["http"] = {"verb": "get", "uri": "/v1/{%s=items/*}" % word}
    elif pos == "http-var-dotted-leaf":
        inner["fields"].append({"name": word, "number": 2, "type": "string"})
        meth["http"] = {"verb": "get", "uri": "/v1/{inner.%s=items/*}" % word}
    elif pos == "http-var-dotted-nonleaf":
        req["fields"].append({"name": word, "number": 3, "type": "message", "type_name": P + "Inner"})
        meth["http"] = {"verb": "post", "uri": "/v1/{%s.plain=items/*}:frob" % word, "body": "*"}
    elif pos == "http-body":
        req["fields"].append({"name": word, "number": 3, "type": "message", "type_name": P + "Inner"})
        meth["http"] = {"verb": "post", "uri": "/v1/{plain=items/*}", "body": word}
    elif pos == "routing-implicit-dotted":
        req["fields"].append({"name": word, "number": 3, "type": "message", "type_name": P + "Inner"})
        meth["http"] = {"verb": "get", "uri": "/v1/{%s.plain=items/*}/x" % word}
    elif pos == "routing-explicit":
        req["fields"].append({"name": word, "number": 3, "type": "string"})
        meth["routing"] = [{"field": word, "template": "{routing_id=items/*}"}, {"field": word}]
    elif pos in ("rpc-name", "rpc-name-transport"):
        meth["name"] = word if pos == "rpc-name-transport" else word[0].upper() + word[1:].lower()
        meth["http"] = {"verb": "get", "uri": "/v1/{plain=items/*}"}
    elif pos == "file-name":
        fname = f"acme/lib/v1/{word}.proto"
    elif pos == "module-collision":
        fname = f"acme/lib/v1/{word}.proto"
        dep = {"status": ".google.rpc.Status", "empty": ".google.protobuf.Empty", "operations": ".google.longrunning.Operation",
               "field_mask": ".google.protobuf.FieldMask", "timestamp": ".google.protobuf.Timestamp", "policy": ".google.iam.v1.Policy",
               "duration": ".google.protobuf.Duration", "struct": ".google.protobuf.Struct"}[word]
        req["fields"].append({"name": "dep", "number": 3, "type": "message", "type_name": dep})
        meth["signatures"] = ["dep"]
    api = {"files": [{"name": fname, "package": "acme.lib.v1", "messages": [inner, req], "enums": [],
                      "services": [{"name": "Library", "host": "lib.acme.com", "methods": [meth]}]}]}
    return api


def run_case(case, rec):
    word, pos = case["word"], case["position"]
    api = build_api(word, pos)
    options = {"params": ["transport=grpc+rest"], "transport": "grpc+rest", "snippets": True}
    rec.cls("position:" + pos)
    rec.nontrivial([word, pos])
    with common.scratch("c12") as d:
        res, req = G.generate_checked(api, options, d, rec, ID)
        from props.c01 import static_checks
        static_checks(res, api, options)
        G.run_exerciser(ID, api, options, {"word": word, "position": pos}, res, req, d, rec)
    rec.sample({"word": word, "position": pos}, cap=6)
