"""C17 — mixin RPCs are exposed exactly as configured in the service YAML."""
from hypothesis import strategies as st
from harness import common, strategies as S, model as M
from harness.refmodels import mixins as MX
from props import common_gen as G

ID = "C17"
LEVEL = "exploration"
RULE = ("Hypothesis over service YAMLs (each subset of the three mixin APIs listed under `apis`; per mixin RPC an HTTP rule present or "
        "absent — all-or-none per API at high weight, arbitrary subsets otherwise; rule verbs/URIs/bodies varied, additional bindings) "
        "x small APIs with 1..3 services, some defining their own SetIamPolicy/GetIamPolicy/TestIamPermissions (in the first, a middle "
        "or the last service) x transports x the add-iam-methods option. Oracle (refmodels/mixins.py): the set of snake-case mixin "
        "methods present on sync and asyncio clients of EVERY service equals the reference set; each exposed RPC, called over gRPC, "
        "reaches the canonical /google.<...>/<Method> path with the standard request decoded and a routing header for name/resource "
        "and returns the standard response; over REST it uses the rule's verb, path and body; an API-defined IAM RPC still reaches its "
        "own service path. Non-trivial: proper non-empty rule subset, IAM override, or add-iam-methods; distinct = (listed APIs, rule "
        "subset class, override position, transport, option).")
ASSUMPTIONS = ["mixin request names are generated to match the path pattern of one of the rule's bindings (primary or additional); the binding that has to be used is the first one the name fits"]

RULE_TEMPLATES = {
    "google.longrunning.Operations.ListOperations": [("get", "/v1/{name=projects/*}/operations", None), ("get", "/v2/{name=projects/*/locations/*}/operations", None)],
    "google.longrunning.Operations.GetOperation": [("get", "/v1/{name=operations/*}", None), ("get", "/v1/{name=projects/*/operations/*}", None)],
    "google.longrunning.Operations.DeleteOperation": [("delete", "/v1/{name=operations/*}", None), ("delete", "/v1/{name=projects/*/operations/*}", None)],
    "google.longrunning.Operations.CancelOperation": [("post", "/v1/{name=operations/*}:cancel", "*"), ("post", "/v1/{name=projects/*/operations/*}:cancel", None)],
    "google.longrunning.Operations.WaitOperation": [("post", "/v1/{name=operations/*}:wait", "*"), ("post", "/v1/{name=projects/*/operations/*}:wait", "*")],
    "google.iam.v1.IAMPolicy.SetIamPolicy": [("post", "/v1/{resource=projects/*/things/*}:setIamPolicy", "*"), ("post", "/v1/{resource=projects/*/shelves/*}:setIamPolicy", "*")],
    "google.iam.v1.IAMPolicy.GetIamPolicy": [("get", "/v1/{resource=projects/*/things/*}:getIamPolicy", None), ("post", "/v1/{resource=projects/*/things/*}:getIamPolicy", "*")],
    "google.iam.v1.IAMPolicy.TestIamPermissions": [("post", "/v1/{resource=projects/*/things/*}:testIamPermissions", "*"), ("post", "/v1/{resource=projects/*/shelves/*}:testIamPermissions", "*")],
    "google.cloud.location.Locations.ListLocations": [("get", "/v1/{name=projects/*}/locations", None), ("get", "/v1/{name=organizations/*}/locations", None)],
    "google.cloud.location.Locations.GetLocation": [("get", "/v1/{name=projects/*/locations/*}", None), ("get", "/v2/{name=organizations/*/locations/*}", None)],
}


def budget(tier):
    return {"shards": 16, "examples": 14 if tier == "quick" else 220, "wall": 170 if tier == "quick" else 1500}


@st.composite
def _case(draw):
    prof = S.profile(max_methods=2, max_services=3, p_http=0.6, p_sig=0.1, p_routing=0.0, p_paged=0.05, p_lro=0.1, p_stream=0.05,
                     p_dep_io=0.0, p_comment=0.02, max_messages=2, max_fields=3, max_files=1, p_additional=0.0, p_resource=0.05)
    api = draw(S.apis(prof))
    svcs = [s for f in api["files"] for s in f.get("services", [])]
    own = draw(st.sampled_from([None, None, None, "first", "last", "middle"]))
    if own and svcs:
        target = {"first": svcs[0], "last": svcs[-1], "middle": svcs[len(svcs) // 2]}[own]
        rpc = draw(st.sampled_from(sorted(MX.IAM)))
        io = {"SetIamPolicy": (".google.iam.v1.SetIamPolicyRequest", ".google.iam.v1.Policy"),
              "GetIamPolicy": (".google.iam.v1.GetIamPolicyRequest", ".google.iam.v1.Policy"),
              "TestIamPermissions": (".google.iam.v1.TestIamPermissionsRequest", ".google.iam.v1.TestIamPermissionsResponse")}[rpc]
        if not any(m["name"] == rpc for m in target["methods"]):
            target["methods"].append({"name": rpc, "input": io[0], "output": io[1],
                                      "http": {"verb": "post", "uri": "/v1/{resource=shelves/*}:" + rpc[0].lower() + rpc[1:], "body": "*"}})
    listed = [a for a in MX.MIXINS if draw(st.booleans())]
    rules, excluded = [], []
    for a in MX.MIXINS:
        mode = draw(st.sampled_from(["all", "all", "none", "subset"]))
        for rpc in MX.MIXINS[a]:
            sel = f"{a}.{rpc}"
            if mode == "all" or (mode == "subset" and draw(st.booleans())):
                tpls = RULE_TEMPLATES[sel]
                i = draw(st.integers(0, len(tpls) - 1))
                verb, uri, body = tpls[i]
                r = {"selector": sel, verb: uri}
                if body:
                    r["body"] = body
                if draw(st.integers(0, 2)) == 0:
                    # additional bindings: the other templates of this RPC (their path patterns differ from the primary's)
                    others = [(v, u, b) for j, (v, u, b) in enumerate(tpls) if j != i and u != uri]
                    if any(b != body for _v, _u, b in others) and draw(st.integers(0, 3)) != 0:
                        # known finding F-rest-mixin-additional-bindings-body: body handling follows the primary binding only
                        excluded.append("F-rest-mixin-additional-bindings-body")
                        others = [o for o in others if o[2] == body]
                    if others:
                        r["additional_bindings"] = [dict({v: u}, **({"body": b} if b else {})) for v, u, b in others]
                rules.append(r)
    if rules and draw(st.integers(0, 3)) == 0:
        # a selector listed twice (a generic block followed by an override): the last rule is the one in force
        k = draw(st.integers(0, len(rules) - 1))
        sel = rules[k]["selector"]
        alts = [t for t in RULE_TEMPLATES[sel] if t[1] != next(v for kk, v in rules[k].items() if kk in ("get", "post", "put", "patch", "delete"))]
        if alts:
            verb, uri, body = draw(st.sampled_from(alts))
            early = {"selector": sel, verb: uri}
            if body:
                early["body"] = body
            rules.insert(draw(st.integers(0, k)), early)
    host = svcs[0].get("host", "lib.acme.com") if svcs else "lib.acme.com"
    yaml_ = {"type": "google.api.Service", "config_version": 3, "name": host,
             "apis": [{"name": a} for a in listed], "http": {"rules": rules}}
    t = draw(st.sampled_from(["grpc", "grpc+rest", "rest"]))
    # the legacy option together with API-defined IAM RPCs would define one method name twice: not combined
    add_iam = draw(st.integers(0, 4)) == 0 and not MX.own_iam_rpcs(api)
    opts = {"params": ["autogen-snippets=False", f"transport={t}"] + (["add-iam-methods"] if add_iam else []), "snippets": False, "transport": t,
            "service_yaml": yaml_, "add_iam_methods": add_iam}
    if excluded:
        api["_excluded"] = sorted(set(api.get("_excluded", [])) | set(excluded))
    return {"api": api, "options": opts, "own": own, "inner": {"seed": draw(st.integers(0, 2 ** 31)), "n": 3}}


def strategy(tier):
    return _case()


def run_case(case, rec):
    api, options = case["api"], case["options"]
    y = options["service_yaml"]
    exp = MX.exposed(y, api, options.get("add_iam_methods"))
    listed = sorted(a["name"].rsplit(".", 1)[-1] for a in y["apis"])
    rules = {r["selector"] for r in y["http"]["rules"]}
    cls = []
    for a in MX.MIXINS:
        n = sum(1 for rpc in MX.MIXINS[a] if f"{a}.{rpc}" in rules)
        cls.append("all" if n == len(MX.MIXINS[a]) else "none" if n == 0 else "subset")
    rec.cls("listed:" + ",".join(listed))
    rec.cls("own-iam:" + str(case["own"]))
    if "subset" in cls or MX.own_iam_rpcs(api) or options.get("add_iam_methods"):
        rec.nontrivial([listed, cls, case["own"], options["transport"], options.get("add_iam_methods")])
    with common.scratch("c17") as d:
        res, req = G.generate_checked(api, options, d, rec, ID)
        inner = dict(case["inner"], expected=sorted(exp))
        G.run_exerciser(ID, api, options, inner, res, req, d, rec)
    rec.sample({"listed": listed, "rules": sorted(rules), "expected_exposed": sorted(exp), "own_iam": sorted(MX.own_iam_rpcs(api)), "transport": options["transport"]}, cap=3)
