"""C16 — selective generation keeps exactly the listed RPCs and a closed set of types."""
import copy
from hypothesis import strategies as st
from harness import common, strategies as S, model as M
from harness.engine import Violation
from harness.refmodels import selective as SEL
from props import common_gen as G

ID = "C16"
LEVEL = "exploration"
RULE = ("Hypothesis over APIs with 1..3 services in 1..3 files and a shared type graph (types used by kept and dropped RPCs, nested "
        "types, recursive types, enums in enum-only files, enums reachable only through maps, LRO response/metadata, paged items, "
        "resource references) x a subset of RPCs per service (empty for a whole service, all, single) x generate_omitted_as_internal "
        "in {false,true} x invalid lists (unknown method, method of another version, duplicate version entry). Oracle "
        "(refmodels/selective.py): invalid => generation raises; omit mode => library imports, each service with a listed RPC exposes "
        "exactly its listed RPCs and services with none are absent, every type of the strict closure is present (must-have), every "
        "top-level type outside the generous closure is absent (must-not-have), kept RPCs reach their path with the caller's request "
        "and return the reply; internal mode => all types present, unlisted RPCs only as _<name>, Base<Svc>Client iff the service has an "
        "unlisted RPC. Non-trivial: 0 < |kept| < |all| with a type shared between a kept and a dropped RPC, or internal mode; distinct "
        "= (mode, kept fraction bucket, #services, shape classes).")
ASSUMPTIONS = ["types between the strict and the generous closure are measured, not judged",
               "selection travels in publishing.library_settings[version == package].python_settings.common.selective_gapic_generation"]


def budget(tier):
    return {"shards": 16, "examples": 14 if tier == "quick" else 200, "wall": 170 if tier == "quick" else 1500}


@st.composite
def _case(draw):
    prof = S.profile(dep_only_file=0.2, extended_operations=0.25, max_methods=4, max_services=3, max_files=3, p_subpackage=0.0, p_http=0.4, p_sig=0.2, p_routing=0.05, p_paged=0.15,
                     p_lro=0.15, p_stream=0.1, p_dep_io=0.05, p_comment=0.02, max_messages=5, max_fields=5, p_resource=0.35, p_map=0.25,
                     p_nested=0.5, p_recursive=0.15)
    api = draw(S.apis(prof))
    methods = list(M.all_methods(api))
    root = M.common_package(api)
    mode = draw(st.sampled_from(["omit", "omit", "omit", "internal", "internal", "invalid"]))
    kept = []
    for f in api["files"]:
        if api.get("file_to_generate") and f["name"] not in api["file_to_generate"]:
            continue          # dependency-only file: its services get no client and cannot be listed
        for s in f.get("services", []):
            how = draw(st.sampled_from(["all", "none", "one", "some", "some"]))
            ms = s["methods"]
            if how == "all":
                pick = list(range(len(ms)))
            elif how == "none":
                pick = []
            elif how == "one":
                pick = [draw(st.integers(0, len(ms) - 1))]
            else:
                pick = [i for i in range(len(ms)) if draw(st.booleans())]
            kept += [(f["package"], s["name"], ms[i]["name"]) for i in pick]
    if not kept and methods:
        f, s, m = methods[0]
        kept = [(f["package"], s["name"], m["name"])]
    names = [f"{p}.{s}.{m}" for p, s, m in kept]
    invalid = None
    if mode == "invalid":
        invalid = draw(st.sampled_from(["unknown-method", "other-version", "duplicate-version"]))
        if invalid == "unknown-method":
            names = names + [names[0] + "DoesNotExist"]
        elif invalid == "other-version":
            p, s, m = kept[0]
            names = names + [f"{p}x.{s}.{m}"]
    settings = [{"version": root, "python_settings": {"common": {"selective_gapic_generation": {
        "methods": names, "generate_omitted_as_internal": mode == "internal"}}}}]
    if invalid == "duplicate-version":
        settings.append(copy.deepcopy(settings[0]))
    host = next((s.get("host") for f in api["files"] for s in f.get("services", [])), "lib.acme.com")
    opts = {"params": ["autogen-snippets=False"], "snippets": False, "transport": "grpc",
            "service_yaml": {"type": "google.api.Service", "config_version": 3, "name": host, "publishing": {"library_settings": settings}}}
    return {"api": api, "options": opts, "mode": mode, "invalid": invalid, "kept": [list(k) for k in kept],
            "inner": {"seed": draw(st.integers(0, 2 ** 31)), "n": 3}}


def strategy(tier):
    return _case()


def run_case(case, rec):
    api, options, mode = case["api"], case["options"], case["mode"]
    kept = {tuple(k) for k in case["kept"]}
    if mode == "omit":
        # polling methods of operation services named by kept extended-operation RPCs stay although not listed
        # (in internal mode nothing is dropped: they are internal like every other unlisted RPC)
        kept = SEL.implied(api, kept)
    triples = [(f, s, m) for f, s, m in M.all_methods(api) if (f["package"], s["name"], m["name"]) in kept]
    allm = list(M.all_methods(api))
    rec.cls("mode:" + mode + (":" + case["invalid"] if case["invalid"] else ""))
    with common.scratch("c16") as d:
        if mode == "invalid":
            try:
                G.generate_checked(api, options, d, rec, ID)
            except Violation as v:
                if v.kind.startswith("generation-raised"):
                    rec.nontrivial(["invalid", case["invalid"]])
                    return
                raise
            raise Violation("invalid-selection-accepted:" + case["invalid"], f"a selective-generation list with a {case['invalid']} entry was accepted",
                            {"api": api, "options": options})
        res, req = G.generate_checked(api, options, d, rec, ID)
        strict, generous = SEL.closure(api, triples)
        tops = SEL.top_level(api)
        root = M.common_package(api)
        shared = False
        if 0 < len(triples) < len(allm):
            dropped = [t for t in allm if t not in triples and (t[0]["package"], t[1]["name"], t[2]["name"]) not in kept]
            ds, _ = SEL.closure(api, dropped)
            shared = bool(ds & strict)
        frac = "all" if len(triples) == len(allm) else "some"
        if mode == "internal" or (frac == "some" and shared):
            rec.nontrivial([mode, frac, len({s['name'] for _, s, _ in allm}), shared, G.shape_classes(api)])
        inner = dict(case["inner"], mode=mode, kept=sorted(list(k) for k in kept),
                     must_have=sorted(t for t in strict if t.startswith(root + ".")),
                     must_not=sorted(t for t in tops if t not in generous) if mode == "omit" else [])
        G.run_exerciser(ID, api, options, inner, res, req, d, rec)
    rec.sample({"mode": mode, "kept": [".".join(k) for k in case["kept"]][:6], "all_rpcs": len(allm), "strict_closure": len(strict),
                "generous_closure": len(generous), "top_level_types": len(tops)}, cap=3)
