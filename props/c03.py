"""C03 — gRPC calls reach the right RPC with the caller's request and return the reply."""
from hypothesis import strategies as st
from harness import common, strategies as S
from props import common_gen as G

ID = "C03"
LEVEL = "exploration"
RULE = ("Hypothesis over RPC-heavy API models (unary, server-, client-, bidi-streaming; void; LRO; paged; request/response "
        "types local, cross-file, or from dependency packages; keyword and transport-colliding RPC names) x inner scenarios "
        "(request valuations, reply valuations, stream lengths 0..3, request form message|dict|omitted, sync|asyncio client). "
        "Loopback grpc.server with handlers of the declared arity records path and raw bytes, decoded with the INPUT "
        "descriptors. Per service also a two-client history: after the first client was used, a second client instance on its "
        "own channel / endpoint to a second loopback server (sync, asyncio, REST) must reach that server only. The API's own "
        "message named Empty is generated as a response type. Non-trivial: method that is not (unary, local types, non-void, non-LRO); distinct = distinct "
        "(arity, void, lro, request origin, response origin).")
ASSUMPTIONS = ["grpcio / google-api-core / proto-plus at /venv versions", "loopback server on 127.0.0.1, OS-chosen port"]


def budget(tier):
    return {"shards": 16, "examples": 14 if tier == "quick" else 220, "wall": 170 if tier == "quick" else 1500}


@st.composite
def _case(draw):
    prof = S.profile(dep_only_file=0.2, services_in_subpackages=True, p_own_empty=0.2, max_methods=6, max_services=2, p_http=0.3, p_sig=0.2, p_routing=0.05, p_paged=0.12, p_lro=0.12,
                     p_stream=0.45, p_dep_io=0.25, p_comment=0.05, max_messages=4, max_fields=5, p_keyword_rpc=0.12,
                     p_resource=0.1, max_files=2)
    api = draw(S.apis(prof))
    opts = {"params": ["autogen-snippets=False"] + (["transport=grpc+rest"] if draw(st.booleans()) else []), "snippets": False}
    opts["transport"] = "grpc+rest" if "transport=grpc+rest" in opts["params"] else "grpc"
    return {"api": api, "options": opts, "inner": {"seed": draw(st.integers(0, 2 ** 31)), "n": 8}}


def strategy(tier):
    return _case()


def run_case(case, rec):
    api, options = case["api"], case["options"]
    for c in G.shape_classes(api):
        rec.cls("shape:" + c)
    with common.scratch("c03") as d:
        res, req = G.generate_checked(api, options, d, rec, ID)
        G.run_exerciser(ID, api, options, dict(case["inner"]), res, req, d, rec)
