"""Shared case execution for properties that generate a library and (optionally) exercise it."""
import json, os
from harness import common, driver, model as M
from harness.engine import Violation, HarnessError


def shape_classes(api):
    """Feature vector of an API model (for class histograms and non-triviality signatures)."""
    c = set()
    pk = {f["package"] for f in api["files"]}
    if len(api["files"]) > 1:
        c.add("multi-file")
    if len(pk) > 1:
        c.add("sub-package")
    for f in api["files"]:
        for full, m, path in M.walk_messages(f):
            if len(path) > 1:
                c.add("nested")
            if m.get("resource"):
                c.add("resource")
            if m.get("oneofs"):
                c.add("oneof")
            for fld in m["fields"]:
                t = fld["type"]
                if t == "map":
                    c.add("map")
                if fld.get("optional"):
                    c.add("optional")
                if fld.get("repeated"):
                    c.add("repeated")
                if t in ("message", "enum"):
                    tn = fld["type_name"]
                    if tn == "." + full:
                        c.add("recursive")
                    elif tn.startswith(".google."):
                        c.add("dep-type")
                    elif not tn.startswith("." + f["package"] + "."):
                        c.add("cross-package")
                if fld.get("ref"):
                    c.add("resource-ref")
                if fld.get("required"):
                    c.add("required")
        if len(f.get("services", [])) > 1:
            c.add("multi-service")
        for s in f.get("services", []):
            for m in s["methods"]:
                if m.get("cs") and m.get("ss"):
                    c.add("bidi")
                elif m.get("cs"):
                    c.add("client-stream")
                elif m.get("ss"):
                    c.add("server-stream")
                if m.get("lro") is not None:
                    c.add("lro")
                if m.get("http"):
                    c.add("http")
                    if m["http"].get("additional"):
                        c.add("http-additional")
                    if m["http"].get("body") == "*":
                        c.add("http-body-star")
                    elif m["http"].get("body"):
                        c.add("http-body-field")
                if m.get("signatures"):
                    c.add("signature")
                if m.get("routing") is not None:
                    c.add("routing")
                if m["input"].startswith(".google.") or m["output"].startswith(".google.") and m.get("lro") is None:
                    c.add("dep-io")
                if m["output"] == ".google.protobuf.Empty":
                    c.add("void")
                if "page_token" in json.dumps(M.find_message(api, m["input"]) or {}):
                    c.add("paged-ish")
    return sorted(c)


def field_kinds(api):
    k = set()
    for f in api["files"]:
        for _, m, _ in M.walk_messages(f):
            for fld in m["fields"]:
                k.add(fld["type"] if fld["type"] in ("message", "enum", "map") else "scalar:" + fld["type"])
    return k


def generate_checked(api, options, d, rec, pid):
    """compile + validate + generate; harness errors for unsound models, Violation for generator crashes."""
    for fid in api.get("_excluded", []):
        rec.exclude(fid)
    try:
        fds, _ = M.compile_api(api)
        M.validate(fds)
    except Exception as e:
        raise HarnessError(f"generator produced an unsound model ({type(e).__name__}: {e})")
    res, req = driver.generate(api, options, d)
    if res.error is not None:
        last = [l for l in res.tb.strip().splitlines() if l.strip()][-1]
        where = ""
        for l in res.tb.splitlines():
            if "/gapic/" in l and "File" in l:
                where = l.strip().split("/gapic/")[-1]
        raise Violation("generation-raised:" + type(res.error).__name__, f"{last[:300]} (at gapic/{where})",
                        {"api": api, "options": options, "traceback": res.tb[-3000:]})
    return res, req


def run_exerciser(pid, api, options, inner, res, req, d, rec, beside=(), prefer_unknown=False):
    out = os.path.join(d, "out")
    os.makedirs(out)
    for other in beside:          # libraries the emitted one depends on (installed first; the target's files win)
        driver.materialise(other, out)
    driver.materialise(res.response, out)
    driver.materialise_dep_pb2(req, api, out)
    r = driver.exercise(pid, d, out, req, api, options, inner)
    if r.get("harness_error") and not r.get("violations"):
        raise HarnessError(f"exerciser: {r['harness_error'][-3000:]}")
    for k, v in r.get("classes", {}).items():
        rec.cls(k, v)
    for k, v in r.get("counters", {}).items():
        rec.count(k, v)
    rec.signatures.update(r.get("signatures", []))
    for s in r.get("samples", []):
        rec.sample(s)
    if r["violations"]:
        v = r["violations"][0]
        if prefer_unknown:
            # the exerciser goes on after recording a known finding's violation (C05): report a violation that is not a
            # known finding first, so that a known one does not mask a new one of the same run
            from harness import findings
            known = findings.load()
            case_like = {"api": api, "options": options, "inner": inner}
            v = next((x for x in r["violations"] if findings.match(known, pid, x, case_like) is None), v)
        raise Violation(v["kind"], v["msg"], {"api": api, "options": options, "inner": inner, "detail": v.get("detail"),
                                              "all": [x["kind"] for x in r["violations"]]})
    return r
