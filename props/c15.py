"""C15 — gapic_metadata.json and the fix-up script describe the generated surface exactly."""
import ast, json, re
from hypothesis import strategies as st
from harness import common, strategies as S, model as M
from harness.engine import Violation, HarnessError
from harness.refmodels import naming as N
from harness.exerciser.base import snake, client_method_name
from harness.strategies import RESERVED
from props import common_gen as G

ID = "C15"
LEVEL = "exploration"
RULE = ("Hypothesis over API models with several services, duplicate RPC names across services, keyword-named RPCs, reserved-word "
        "fields, required fields in non-leading positions and field numbers out of declaration order x transports {grpc, rest, "
        "grpc+rest}, with the metadata option on. Oracle: gapic_metadata.json vs the reference (proto package, library package, target "
        "services each once, client kinds implied by the transports, RPC set per client equal to the input's, every named class/method "
        "resolves by getattr in the imported package); METHOD_TO_PARAMS read with ast.literal_eval: keys = every RPC name in snake case, "
        "each value = for some method of that name all request fields, required first and otherwise in declaration order. Non-trivial: "
        ">=2 services, or a keyword RPC, or a required field after an optional one, or numbers out of declaration order; distinct = "
        "(transport, #services, those flags).")
ASSUMPTIONS = ["fix-up table field names are accepted with or without the reserved-word suffix (the statement does not say)"]


def budget(tier):
    return {"shards": 16, "examples": 20 if tier == "quick" else 330, "wall": 170 if tier == "quick" else 1500}


@st.composite
def _case(draw):
    prof = S.profile(max_methods=5, max_services=3, p_http=0.5, p_sig=0.3, p_routing=0.05, p_paged=0.1, p_lro=0.1, p_stream=0.15,
                     p_dep_io=0.1, p_comment=0.02, max_messages=3, max_fields=6, max_files=2, p_keyword_rpc=0.12, p_reserved_field=0.12,
                     required_fields=True, p_required=0.3, p_sparse_numbers=0.5, dup_rpc_names=True, p_twin_rpc=0.3,
                     services_in_subpackages=True, p_subpackage=0.35)
    api = draw(S.apis(prof))
    t = draw(st.sampled_from(["grpc", "rest", "grpc+rest"]))
    opts = {"params": ["autogen-snippets=False", "metadata", f"transport={t}"], "snippets": False, "transport": t, "metadata": True}
    internal = None
    if draw(st.integers(0, 3)) == 0:
        # selective generation in internal mode: unlisted RPCs become _<name>, their clients Base<Svc>Client
        allm = [(f["package"], s["name"], m["name"]) for f, s, m in M.all_methods(api)]
        kept = [x for x in allm if draw(st.booleans())] or allm[:1]
        root = M.common_package(api)
        host = next((s.get("host") for f in api["files"] for s in f.get("services", [])), "lib.acme.com")
        opts["service_yaml"] = {"type": "google.api.Service", "config_version": 3, "name": host, "publishing": {"library_settings": [
            {"version": root, "python_settings": {"common": {"selective_gapic_generation": {
                "methods": [".".join(k) for k in kept], "generate_omitted_as_internal": True}}}}]}}
        internal = [list(k) for k in kept]
    return {"api": api, "options": opts, "internal_kept": internal}


def strategy(tier):
    return _case()


def run_case(case, rec):
    api, options = case["api"], case["options"]
    naming = N.expected(api, options)
    V = lambda k, m: Violation(k, m, {"api": api, "options": options})
    with common.scratch("c15") as d:
        res, req = G.generate_checked(api, options, d, rec, ID)
        files = res.files
        mds = [n for n in files if n.endswith("gapic_metadata.json")]
        if len(mds) != 1:
            raise V("metadata-file", f"{len(mds)} gapic_metadata.json files emitted with the metadata option on")
        md = json.loads(files[mds[0]])
        if md.get("protoPackage") != naming["root_package"]:
            raise V("proto-package", f"protoPackage {md.get('protoPackage')!r}, expected {naming['root_package']!r}")
        if md.get("libraryPackage") != naming["versioned_import"]:
            raise V("library-package", f"libraryPackage {md.get('libraryPackage')!r}, expected {naming['versioned_import']!r}")
        svcs = [(f, s) for f in api["files"] for s in f.get("services", [])]
        want_svcs = sorted(s["name"] for _, s in svcs)
        if sorted(md.get("services", {})) != want_svcs:
            raise V("services", f"metadata services {sorted(md.get('services', {}))}, target services {want_svcs}")
        kinds = set()
        if "grpc" in options["transport"].split("+"):
            kinds |= {"grpc", "grpc-async"}
        if "rest" in options["transport"].split("+"):
            kinds.add("rest")
        for f, s in svcs:
            clients = md["services"][s["name"]].get("clients", {})
            if set(clients) != kinds:
                raise V("client-kinds", f"service {s['name']}: client kinds {sorted(clients)}, transports {options['transport']} imply {sorted(kinds)}")
            kept = None if not case.get("internal_kept") else {tuple(k) for k in case["internal_kept"]}
            has_unlisted = kept is not None and any((f["package"], s["name"], m["name"]) not in kept for m in s["methods"])
            for kind, cl in clients.items():
                exp_cls = ("Base" if has_unlisted else "") + s["name"] + ("AsyncClient" if kind == "grpc-async" else "Client")
                if cl.get("libraryClient") != exp_cls:
                    raise V("client-name", f"service {s['name']} kind {kind}: libraryClient {cl.get('libraryClient')!r}, expected {exp_cls!r}")
                want_rpcs = sorted(m["name"] for m in s["methods"])
                if sorted(cl.get("rpcs", {})) != want_rpcs:
                    raise V("rpc-set", f"service {s['name']} kind {kind}: rpcs {sorted(cl.get('rpcs', {}))}, input has {want_rpcs}")
                for m in s["methods"]:
                    got = cl["rpcs"][m["name"]].get("methods")
                    exp_m = client_method_name(m["name"])
                    if kept is not None and (f["package"], s["name"], m["name"]) not in kept:
                        exp_m = "_" + exp_m
                    if got != [exp_m]:
                        raise V("rpc-method-name", f"service {s['name']} kind {kind}: RPC {m['name']} -> {got}, expected [{exp_m!r}]")
        # fix-up script
        fx = [n for n in files if re.match(r"scripts/fixup_.*_keywords\.py$", n)]
        if len(fx) != 1:
            raise V("fixup-file", f"{len(fx)} fix-up scripts emitted")
        src = files[fx[0]]
        try:
            tree = ast.parse(src)
        except SyntaxError as e:
            raise V("fixup-syntax", f"{fx[0]}: {e}")
        table = None
        for node in ast.walk(tree):
            if isinstance(node, ast.AnnAssign) and getattr(node.target, "id", None) == "METHOD_TO_PARAMS":
                table = ast.literal_eval(node.value)
        if table is None:
            raise V("fixup-table", "METHOD_TO_PARAMS not found")
        by_rpc = {}
        for f, s in svcs:
            for m in s["methods"]:
                by_rpc.setdefault(m["name"], []).append(m)
        keys_ok = {snake(r) for r in by_rpc} | {client_method_name(r) for r in by_rpc}
        missing = [r for r in by_rpc if snake(r) not in table and client_method_name(r) not in table]
        extra = [k for k in table if k not in keys_ok]
        if missing or extra:
            raise V("fixup-keys", f"METHOD_TO_PARAMS lacks {missing}, has unexpected {extra}")
        flags = {"req_after_opt": False, "out_of_order": False}
        for r, ms in by_rpc.items():
            got = tuple(table.get(snake(r), table.get(client_method_name(r))))
            cands = []
            for m in ms:
                msg = M.find_message(api, m["input"])
                if msg is None:       # dependency request: read from the installed descriptor
                    from google.protobuf import descriptor_pool
                    dd = descriptor_pool.Default().FindMessageTypeByName(m["input"].lstrip("."))
                    names, required = [x.name for x in dd.fields], []
                    from google.api import field_behavior_pb2
                    required = [x.name for x in dd.fields if field_behavior_pb2.REQUIRED in x.GetOptions().Extensions[field_behavior_pb2.field_behavior]]
                else:
                    names = [x["name"] for x in msg["fields"]]
                    required = [x["name"] for x in msg["fields"] if x.get("required")]
                    nums = [x["number"] for x in msg["fields"]]
                    if nums != sorted(nums):
                        flags["out_of_order"] = True
                    seen_opt = False
                    for x in msg["fields"]:
                        if not x.get("required"):
                            seen_opt = True
                        elif seen_opt:
                            flags["req_after_opt"] = True
                cands.append(tuple([n for n in names if n in required] + [n for n in names if n not in required]))
            norm = lambda t: tuple(x[:-1] if x.endswith("_") and x[:-1] in RESERVED else x for x in t)
            if norm(got) not in [norm(c) for c in cands]:
                raise V("fixup-params", f"METHOD_TO_PARAMS[{snake(r)!r}] = {got}; expected required fields first, then declaration order: {cands}")
        G.run_exerciser(ID, api, options, {}, res, req, d, rec)
    kw = any(client_method_name(r) != snake(r) for r in by_rpc)
    if len(svcs) >= 2 or kw or flags["req_after_opt"] or flags["out_of_order"]:
        rec.nontrivial([options["transport"], len(svcs), kw, flags["req_after_opt"], flags["out_of_order"], any(len(v) > 1 for v in by_rpc.values())])
    for k, v in (("services", len(svcs)), ("keyword-rpc", kw), ("required-after-optional", flags["req_after_opt"]), ("numbers-out-of-order", flags["out_of_order"]),
                 ("duplicate-rpc-names", any(len(v) > 1 for v in by_rpc.values()))):
        rec.cls(f"{k}:{v}")
    rec.cls("internal-mode:" + str(bool(case.get("internal_kept"))))
    rec.sample({"services": want_svcs, "transport": options["transport"], "table_keys": sorted(table)[:8]}, cap=3)
