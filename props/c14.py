"""C14 — generated samples are valid, executable and consistent with their metadata."""
from hypothesis import strategies as st
from harness import common, strategies as S
from props import common_gen as G

ID = "C14"
LEVEL = "exploration"
RULE = ("Hypothesis over API models with snippets on: every calling form (unary, paged, LRO, server/client/bidi streaming, void), required "
        "fields of every kind (scalars, enums, nested messages up to 3 levels, repeated, oneof members, resource references), requests "
        "from dependency packages, keyword-named RPCs x transports {grpc, rest, grpc+rest}. Per RPC and client kind: one sample with the "
        "reference region tag <host shortname>_<version>_generated_<Service>_<Rpc>_<sync|async>, unique; imports only the public package; "
        "the sample function is executed (client class name rebound to a factory that connects the same class to loopback servers) and "
        "must issue exactly one call on the right RPC whose decoded request has every required field populated recursively and one "
        "member of each oneof; metadata entry: file, client/method resolve by getattr, parameters == inspect.signature, FULL/SHORT == "
        "tag lines +/- 1, other segments start on their marker comments, ordered, non-overlapping; docstring code block == text between "
        "the tags. Non-trivial: RPC with a required non-string field or a non-unary calling form; distinct = (form, required kinds, "
        "request origin, client kind).")
ASSUMPTIONS = ["REST-only libraries: LRO and binding-less methods are not executed", "unversioned packages: region tag format measured, not judged"]


def budget(tier):
    return {"shards": 16, "examples": 12 if tier == "quick" else 180, "wall": 170 if tier == "quick" else 1500}


@st.composite
def _case(draw):
    prof = S.profile(dep_only_file=0.2, p_host_per_service=0.5, max_methods=5, max_services=2, p_http=0.7, p_sig=0.3, p_routing=0.05, p_paged=0.15, p_lro=0.15, p_stream=0.3,
                     p_dep_io=0.12, p_comment=0.15, max_messages=4, max_fields=5, max_files=2, p_subpackage=0.0, required_fields=True, p_required=0.45,
                     p_oneof=0.6, p_keyword_rpc=0.06, p_resource=0.3, p_path_required=0.5, p_nested=0.3, p_additional=0.0, avoid_client_streaming_unary=True, twin_required_message_fields=True,
                     dep_messages=[x for x in S.DEP_MESSAGES if x != ".google.protobuf.Value"])   # F-sample-dep-message-type
    api = draw(S.apis(prof))
    t = draw(st.sampled_from(["grpc", "grpc+rest", "grpc+rest", "rest"]))
    opts = {"params": [f"transport={t}"], "snippets": True, "transport": t}
    return {"api": api, "options": opts, "inner": {"seed": draw(st.integers(0, 2 ** 31))}}


def strategy(tier):
    return _case()


def run_case(case, rec):
    api, options = case["api"], case["options"]
    for c in G.shape_classes(api):
        rec.cls("shape:" + c)
    rec.cls("transport:" + options["transport"])
    with common.scratch("c14") as d:
        res, req = G.generate_checked(api, options, d, rec, ID)
        G.run_exerciser(ID, api, options, dict(case["inner"]), res, req, d, rec)
