"""C18 — auto-populated request ids obey AIP-4235 at generation time and at call time."""
import copy
from hypothesis import strategies as st
from harness import common, strategies as S, model as M
from harness.engine import Violation
from props import common_gen as G

ID = "C18"
LEVEL = "exploration"
RULE = ("Hypothesis over APIs whose unary requests carry candidate id fields (string+UUID4 plain / proto3-optional, a second one, and "
        "one defective field per violation class) x method-settings lists: valid (1..2 fields, several methods) | exactly one violation "
        "(unknown method, streaming method, unknown field, nested field path, non-string, repeated string, required, format missing, "
        "other format) | duplicate selector x transports. Generation must fail for every violating list and succeed for valid ones; then "
        "inner calls on sync gRPC, asyncio and REST with the field unset | empty | set: the decoded request at the loopback server carries "
        "a canonical RFC-4122 version-4 UUID, fresh per call, iff unset (or empty without presence), else exactly the caller's value, all "
        "other fields untouched. Non-trivial: valid setting on an optional field, two fields, or a violation class; distinct = (class, "
        "presence kinds, #methods, transport).")
ASSUMPTIONS = ["id fields are not named by reserved words"]

VIOLATIONS = ["unknown-method", "streaming-method", "unknown-field", "nested-field", "non-string", "repeated-string", "required",
              "no-format", "other-format", "duplicate-selector"]


def budget(tier):
    return {"shards": 16, "examples": 16 if tier == "quick" else 250, "wall": 170 if tier == "quick" else 1500}


@st.composite
def _case(draw):
    prof = S.profile(max_methods=4, max_services=2, p_http=0.65, p_sig=0.15, p_routing=0.05, p_paged=0.05, p_lro=0.05, p_stream=0.2,
                     p_dep_io=0.0, p_comment=0.02, max_messages=3, max_fields=3, max_files=2, p_additional=0.0, p_map=0.0, repeated_messages=False,
                     p_dep_type=0.0, p_reserved_field=0.0, services_in_subpackages=True, p_subpackage=0.3)
    api = draw(S.apis(prof))
    unary, streaming = [], []
    for f, s, m in M.all_methods(api):
        msg = M.find_message(api, m["input"])
        if msg is None:
            continue
        (streaming if (m.get("cs") or m.get("ss")) else unary).append((f, s, m, msg))
    decorated = set()
    for f, s, m, msg in unary + streaming:
        if id(msg) in decorated:
            continue
        decorated.add(id(msg))
        base = max([x["number"] for x in msg["fields"]] + [0]) + 1
        if 19000 <= base + 12 and base <= 19999:
            base = 20000
        have = {x["name"] for x in msg["fields"]}
        extra = [
            {"name": "request_id", "type": "string", "format": "UUID4", "optional": draw(st.booleans())},
            {"name": "other_id", "type": "string", "format": "UUID4", "optional": draw(st.booleans())},
            {"name": "num_id", "type": "int32", "format": "UUID4"},
            {"name": "rep_id", "type": "string", "format": "UUID4", "repeated": True},
            {"name": "req_id", "type": "string", "format": "UUID4", "required": True},
            {"name": "plain_str", "type": "string"},
            {"name": "ipv4_id", "type": "string", "format": "IPV4"},
        ]
        for i, e in enumerate(extra):
            if e["name"] not in have:
                msg["fields"].append(dict(e, number=base + i))
    kind = draw(st.sampled_from(["valid"] * 5 + VIOLATIONS)) if unary else "none"
    settings = []
    if kind != "none":
        k = draw(st.integers(1, min(3, len(unary))))
        idx = draw(st.lists(st.integers(0, len(unary) - 1), min_size=k, max_size=k, unique=True))
        for i in idx:
            f, s, m, msg = unary[i]
            fields = ["request_id"] + (["other_id"] if draw(st.booleans()) else [])
            settings.append({"selector": f"{f['package']}.{s['name']}.{m['name']}", "auto_populated_fields": fields})
        bad = settings[-1]
        if kind == "unknown-method":
            bad["selector"] = bad["selector"] + "Nope"
        elif kind == "streaming-method":
            if streaming:
                f, s, m, msg = streaming[0]
                bad["selector"] = f"{f['package']}.{s['name']}.{m['name']}"
            else:
                kind = "unknown-field"
        if kind == "unknown-field":
            bad["auto_populated_fields"] = ["no_such_field"]
        elif kind == "nested-field":
            bad["auto_populated_fields"] = ["request_id.inner"]
        elif kind == "non-string":
            bad["auto_populated_fields"] = ["num_id"]
        elif kind == "repeated-string":
            bad["auto_populated_fields"] = ["rep_id"]
        elif kind == "required":
            bad["auto_populated_fields"] = ["req_id"]
        elif kind == "no-format":
            bad["auto_populated_fields"] = ["plain_str"]
        elif kind == "other-format":
            bad["auto_populated_fields"] = ["ipv4_id"]
        elif kind == "duplicate-selector":
            settings.append(copy.deepcopy(settings[0]))
    # method settings entries that do not auto-populate anything (other settings of other methods), at any position
    others = [(f, s, m) for f, s, m, _msg in unary + streaming if f"{f['package']}.{s['name']}.{m['name']}" not in {x["selector"] for x in settings}]
    if kind in ("valid",) and others and draw(st.booleans()):
        f, s, m = others[draw(st.integers(0, len(others) - 1))]
        entry = {"selector": f"{f['package']}.{s['name']}.{m['name']}", "long_running": {"initial_poll_delay": "5s", "poll_delay_multiplier": 1.5,
                                                                                      "max_poll_delay": "60s", "total_poll_timeout": "600s"}}
        settings.insert(draw(st.integers(0, len(settings))), entry)
    t = draw(st.sampled_from(["grpc+rest", "grpc+rest", "grpc", "rest"]))
    host = next((s.get("host") for f in api["files"] for s in f.get("services", [])), "lib.acme.com")
    opts = {"params": ["autogen-snippets=False", f"transport={t}"], "snippets": False, "transport": t,
            "service_yaml": {"type": "google.api.Service", "config_version": 3, "name": host,
                             "publishing": {"method_settings": settings}}}
    root_ = M.common_package(api)
    sub_svc = any(f["package"] != root_ for f in api["files"] if not api.get("file_to_generate") or f["name"] in api["file_to_generate"])
    # (the ads template set's sub-package __init__ lists names without importing them: any proto sub-package is left to C01)
    if t == "grpc" and draw(st.integers(0, 1)) == 0 and not sub_svc:      # (ads + a service in a proto sub-package: finding F-subpackage-services)
        # the alternative (ads) template set has its own client template (sync client only)
        opts["params"] += ["python-gapic-templates=ads-templates", "old-naming"]
        opts["old_naming"] = True
        opts["ads"] = True
    return {"api": api, "options": opts, "kind": kind, "settings": settings, "inner": {"seed": draw(st.integers(0, 2 ** 31)), "n": 6}}


def strategy(tier):
    return _case()


def run_case(case, rec):
    api, options, kind = case["api"], case["options"], case["kind"]
    rec.cls("settings:" + kind)
    with common.scratch("c18") as d:
        try:
            res, req = G.generate_checked(api, options, d, rec, ID)
        except Violation as v:
            if kind in VIOLATIONS and v.kind.startswith("generation-raised"):
                rec.nontrivial(["rejects", kind])
                rec.sample({"kind": kind, "settings": case["settings"], "rejected_with": v.msg[:160]}, cap=4)
                return
            raise
        if kind in VIOLATIONS:
            raise Violation("invalid-settings-accepted:" + kind, f"method settings with a {kind} violation were accepted: {case['settings']}",
                            {"api": api, "options": options})
        if kind == "valid":
            inner = dict(case["inner"], settings=case["settings"])
            G.run_exerciser(ID, api, options, inner, res, req, d, rec)
