"""C06 — every call carries an x-goog-request-params header that follows AIP-4222."""
from hypothesis import strategies as st
from harness import common, strategies as S
from props import common_gen as G

ID = "C06"
LEVEL = "exploration"
RULE = ("Hypothesis over routing-heavy API models (explicit google.api.routing with 1..3 parameters: no template, {k=*}, {k=**}, "
        "literal prefixes/suffixes, shared keys, nested and reserved-word fields; implicit routing from HTTP path templates with "
        "1..3 top-level/dotted/reserved variables; methods with neither) x inner scenarios (request valuations whose routed fields "
        "are matching | extended beyond a match | prefix | wrong literal | empty | needing escaping; sync|asyncio). Oracle: own "
        "AIP-4222 matcher (refmodels/routing.py): expected key->value map vs urllib.parse.parse_qsl of the single observed header; "
        "header absent iff nothing matches; printable ASCII. Non-trivial: explicit rule with a template and a non-plain-matching "
        "value class, or implicit with dotted variable / escaping; distinct = (mode, template classes, shared key, nested, value classes, client).")
ASSUMPTIONS = ["client-streaming methods have no request to read at call time and are not judged",
               "REST header agreement is checked under C04's rig (same header code path), gRPC sync/asyncio here"]


def budget(tier):
    return {"shards": 16, "examples": 14 if tier == "quick" else 220, "wall": 170 if tier == "quick" else 1500}


@st.composite
def _case(draw):
    prof = S.profile(dep_only_file=0.2, services_in_subpackages=True, p_custom_verb=0.12, max_methods=5, max_services=2, p_http=0.85, p_sig=0.1, p_routing=0.5, p_paged=0.08, p_lro=0.06,
                     p_stream=0.1, p_dep_io=0.05, p_comment=0.03, max_messages=4, max_fields=6, p_reserved_field=0.15,
                     p_map=0.1, p_resource=0.1, max_files=2, p_additional=0.3, routing_reserved_ok=True)
    api = draw(S.apis(prof))
    opts = {"params": ["autogen-snippets=False"], "snippets": False, "transport": "grpc"}
    return {"api": api, "options": opts, "inner": {"seed": draw(st.integers(0, 2 ** 31)), "n": 12}}


def strategy(tier):
    return _case()


def run_case(case, rec):
    api, options = case["api"], case["options"]
    for c in G.shape_classes(api):
        rec.cls("shape:" + c)
    with common.scratch("c06") as d:
        res, req = G.generate_checked(api, options, d, rec, ID)
        G.run_exerciser(ID, api, options, dict(case["inner"]), res, req, d, rec)
