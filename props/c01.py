"""C01 — every generated library is valid, importable Python with the requested clients."""
import json
from hypothesis import strategies as st
from harness import common, strategies as S, model as M
from harness.engine import Violation, HarnessError
from props import common_gen as G

ID = "C01"
LEVEL = "exploration"
RULE = ("Hypothesis over the API model (all shape classes of DESIGN 4.1, installed dependency packages only) x option "
        "sets (transport, numeric enums, metadata, snippets, name/namespace overrides, service yaml, ads templates). "
        "Each case: generate with the real CLI function, compile() every emitted .py, json.loads every .json, import "
        "the package and all sub-modules in a fresh interpreter, check clients/transports. Non-trivial: >=1 service "
        "with >=1 method and >=2 distinct field kinds. Distinct = distinct (transport, snippets, metadata, set of "
        "shape classes present).")
ASSUMPTIONS = [
    "inputs are what DescriptorPool.Add accepts (protoc's own descriptor validation) with annotations well-formed per their documentation",
    "unversioned packages have no proto sub-packages (the generator documents this as an input error)",
    "runtime dependencies at the versions installed in /venv",
]


def budget(tier):
    return {"shards": 16, "examples": 22 if tier == "quick" else 400, "wall": 170 if tier == "quick" else 1500}


@st.composite
def _case(draw):
    prof = S.profile(rich_comments=draw(st.integers(0, 3)) == 0, p_subpackage=0.4, p_foreign_io=0.3, p_paged=0.25, dep_only_file=0.25, p_keyword_rpc=0.08, p_custom_verb=0.05, p_host_per_service=0.3, comment_backslash=True, p_module_named_field=0.04, p_enum_alias=0.1)
    api = draw(S.apis(prof))
    opts = draw(S.option_sets())
    extra = draw(st.integers(0, 10))
    if extra == 0:
        nm = draw(st.sampled_from(["custom", "my_custom_name", "x2"]))
        opts["params"].append(f"python-gapic-name={nm}")
        opts["name"] = nm
    elif extra == 1:
        ns = draw(st.sampled_from(["alpha", "alpha.beta"]))
        opts["params"].append(f"python-gapic-namespace={ns}")
        opts["namespace"] = [ns]
    elif extra == 2:
        opts["params"].append("warehouse-package-name=acme-custom-dist")
    elif extra == 3:
        # service yaml with mixins (whole-API rule sets) -- the yaml-present half of the option space
        from harness import conventional as CV
        mix = [a for a in CV.MIXIN_RULES if draw(st.booleans())]
        host = next((s.get("host") for f in api["files"] for s in f.get("services", [])), "lib.acme.com")
        opts["service_yaml"] = {"type": "google.api.Service", "config_version": 3, "name": host, "apis": [{"name": a} for a in mix],
                                "http": {"rules": [r for a in mix for r in CV.MIXIN_RULES[a]]}}
    elif extra == 4:
        opts["retry_config"] = draw(S.retry_configs(api))
    elif extra == 5 and opts.get("transport") in ("grpc", None):
        # the alternative (ads) template set with its legacy naming; snippets are switched off by the generator itself
        opts["params"] += ["python-gapic-templates=ads-templates", "old-naming"]
        opts["old_naming"] = True
        opts["snippets"] = False
        opts["ads"] = True
    elif extra == 6 and "rest" in (opts.get("transport") or ""):
        # experimental asynchronous REST transport, switched on through the library settings of the service YAML
        if "grpc" not in opts["transport"]:
            # known finding F-async-rest-without-grpc: steer away (counted), the finding's replay keeps the shape
            api["_excluded"] = sorted(set(api.get("_excluded", [])) | {"F-async-rest-without-grpc"})
            opts["transport"] = "grpc+rest"
            opts["params"] = [p if not p.startswith("transport=") else "transport=grpc+rest" for p in opts["params"]]
        host = next((s.get("host") for _f, s, _m in M.all_methods(api)), "lib.acme.com")
        opts["service_yaml"] = {"type": "google.api.Service", "config_version": 3, "name": host, "publishing": {"library_settings": [
            {"version": M.common_package(api), "python_settings": {"experimental_features": {"rest_async_io_enabled": True}}}]}}
        opts["async_rest"] = True
    return {"api": api, "options": opts}


def strategy(tier):
    return _case()


def static_checks(res, api, options):
    for name, content in res.files.items():
        if name.endswith(".py"):
            try:
                compile(content, name, "exec")
            except SyntaxError as e:
                line = (content.splitlines()[e.lineno - 1] if e.lineno and e.lineno <= len(content.splitlines()) else "")
                raise Violation("py-syntax", f"{name}:{e.lineno}: {e.msg}: {line.strip()[:200]}",
                                {"api": api, "options": options, "file": name})
            except ValueError as e:
                raise Violation("py-syntax", f"{name}: {e}", {"api": api, "options": options, "file": name})
        elif name.endswith(".json"):
            try:
                json.loads(content)
            except ValueError as e:
                raise Violation("json-syntax", f"{name}: {e}", {"api": api, "options": options, "file": name})


def run_case(case, rec):
    api, options = case["api"], case["options"]
    classes = G.shape_classes(api)
    for c in classes:
        rec.cls("shape:" + c)
    rec.cls("transport:" + options.get("transport", "grpc"))
    for k in ("name", "namespace", "service_yaml", "retry_config", "ads"):
        if options.get(k):
            rec.cls("option:" + k)
    with common.scratch("c01") as d:
        res, req = G.generate_checked(api, options, d, rec, ID)
        static_checks(res, api, options)
        G.run_exerciser(ID, api, options, {}, res, req, d, rec)
    nm = sum(len(s["methods"]) for f in api["files"] for s in f.get("services", []))
    if nm >= 1 and len(G.field_kinds(api)) >= 2:
        rec.nontrivial([options.get("transport"), options.get("snippets"), options.get("metadata"), classes])
    rec.sample({"files": [f["name"] for f in api["files"]], "options": options["params"], "classes": classes,
                "emitted_files": len(res.response.file)}, cap=4)
